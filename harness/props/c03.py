"""C03 — schema-valid documents are accepted in strict mode and decoded without loss (engine A)."""
import json

from lxml import etree

from harness.core import Result
from harness import xsdgen, xmlcanon, enginea

LEAN_MODULES = ["ZeepProofs.C03", "ZeepProofs.C01", "ZeepProofs.C01Choice", "ZeepProofs.C01Repeat", "ZeepProofs.C01All", "ZeepProofs.C03Deep", "ZeepProofs.C12Attrs"]
NS = "Zeep.Xsd."
THEOREMS = [NS + t for t in ("c03_elem_roundtrip", "c03_flat_sequence_roundtrip", "c03_serialize_names", "c01_nested_record_roundtrip", "c01_record_roundtrip",
                             "c01_record_with_choices_roundtrip", "c01_record_with_choices_roundtrip_root",
                             "c01_record_with_repeated_sequences_roundtrip", "c01_record_with_repeated_sequences_roundtrip_root",
                             "c01_all_record_roundtrip", "c01_all_record_roundtrip_root",
                             "acct", "c03_nothing_skipped", "c03_nothing_skipped_root", "c03_attributes_kept", "c03_item_attributes")] + ["Zeep.SchemaAttrs.c03_complex_nil_read_as_xsd_boolean", "Zeep.SchemaAttrs.c03_any_nil_never_reads_false_as_nil"]
LEVEL = "proof"
MANIFEST = dict(
    engine="A: lean/ZeepModel/Xsd/Parse.lean (+ harness/xsdgen.py, harness/enginea.py)",
    technique="Lean 4 model of zeep's greedy deque decoder on tree-unfolded schemas; round-trip theorems (decode of the reference serialisation is the instance) for element repetitions, flat sequences and records with element and choice members nested to any depth; the converse direction by the accounting invariant: strict acceptance accounts for every element at every depth of the document (c03_nothing_skipped, every wildcard-free nesting of sequence / choice / group, xsd:all at the top) and carries the declared attributes unchanged; differential tie on libxml2-valid documents generated independently of zeep (decoded value, strict acceptance, re-serialisation)",
    text="For element declarations with any occurrence bounds, for flat sequences of distinctly named declarations and for records nested to any depth (ZeepProofs/C01.lean: sequences of single / optional / repeated leaf or record typed elements with attributes) the model's strict decoder is proved to return exactly the instance a reference serialisation came from, leaving the rest of the deque untouched; records may have non-repeating choice members (ZeepProofs/C01Choice.lean) and repeated nested sequences with any number of rounds (ZeepProofs/C01Repeat.lean), or xsd:all content (ZeepProofs/C01All.lean). Conversely (ZeepProofs/C03Deep.lean) for every DeepRegular schema - content models of any nesting of sequence / choice / group with any occurrence bounds, xsd:all at the top, to any depth through the element types - a document accepted in strict mode has every element at every depth decoded by a declaration of its parent's content model carrying its local name (nothing is passed over), and the declared attributes are carried over unchanged. The model is tied to zeep on every run: documents generated from the section-5 grammar independently of zeep (every occurrence class, choice branches, all-permutations, optional attributes, xsi:nil, prefix / default-namespace spellings), confirmed valid by libxml2, are decoded by zeep and by the model (value equality through the documented value-object conventions, call counts), then re-serialised by zeep and compared with the document (sibling order free only inside xsd:all). Obligations c03_complex_nil_read_as_xsd_boolean / c03_any_nil_never_reads_false_as_nil (ZeepProofs/C12Attrs.lean) pin, against the regenerated Generated/SchemaAttrs.lean, how the decoder reads xsi:nil.",
    note="Proof coverage is partial: the round-trip theorems cover records with element / choice / repeated-sequence members; repeating choices, all, groups, wildcards, xsi:type / xsi:nil are modelled and tied, and covered by the nothing-skipped theorem where wildcard-free, but their round-trip theorems are not proved. Known findings K8 (empty complex element decodes to None), K14 (xsi:nil on optional / choice elements decodes to None and is lost on re-serialisation), K17 (wildcard content that is a declared global element decodes to that element's bare value, which xsd:any refuses to render) are listed in known_findings.json.",
    design_ref="DESIGN.md sections 5 and 6, C03",
)
TRUSTED = ["libxml2 as the meaning of 'valid instance document'", "harness/enginea.py conventions mapping a model instance tree to zeep's value-object shape",
           "unfolding of named types to the document's depth (harness/xsdgen.py dump_type)"]
ASSUMPTIONS = ["leaf texts are canonical lexical forms (lexical variants are C11's subject)"]


def run_profile(ctx, res, profile, nschemas, ndocs, pending):
    import random
    for i in range(nschemas):
        seed = ctx.seed * 100000 + i
        try:
            if profile == "multi-repeat":
                case = enginea.Case(seed, profile, src=xsdgen.multi_repeat_schema(random.Random("MR-%s" % seed)))
            else:
                case = enginea.Case(seed, profile)
        except etree.XMLSchemaParseError:
            res.count("schema-rejected-by-libxml2")
            continue
        res.programs += 1
        for doc in case.documents(ndocs):
            xsitype = doc.attrib.pop("data-xsitype", None) is not None
            if not case.validator.validate(doc):
                res.count("generated-doc-invalid")
                continue
            classes = enginea.classify_doc(case, doc)
            ty = case.model_type(xsdgen.height(doc) + 1)
            text = etree.tostring(doc).decode()
            c = dict(seed=seed, profile=profile, xsd=case.xsd, document=text)
            res.case(key=(seed, text), nontrivial=len(doc) > 0)
            for kind in ("seq", "choice", "all"):
                if "<xs:%s" % {"seq": "sequence", "choice": "choice", "all": "all"}[kind] in case.xsd:
                    res.count("schema-has:" + kind)
            res.count("doc-height=%d" % xsdgen.height(doc))
            r = enginea.impl_parse(case, doc, True)
            fail = None
            if r["outcome"] != "ok":
                fail = "libxml2-valid document rejected in strict mode (%s %s)" % (r["outcome"], r.get("msg", ""))
            else:
                rr = enginea.impl_render(case, r["obj"])
                if rr["outcome"] != "ok":
                    fail = "decoded value cannot be re-serialised (%s %s)" % (rr["outcome"], rr.get("msg", ""))
                elif enginea.canon_doc(rr["node"], ty) != enginea.canon_doc(doc, ty):
                    fail = "re-serialising the decoded value does not reproduce the document"
                    c["reserialised"] = etree.tostring(rr["node"]).decode()
            if fail:
                f = dict(what=fail, case=c)
                known = sorted(classes & {"K8", "K14", "K7"})
                if known:
                    f["known"] = known[0]
                    res.known_hits[known[0]] = res.known_hits.get(known[0], 0) + 1
                res.failures.append(f)
            if xsitype:
                res.count("xsi:type-substitution")
            if r["outcome"] == "ok" and not xsitype:
                pending.append(({"op": "xsd.parse", "mode": "strict", "ty": ty, "node": xmlcanon.node(doc, strip_ws=True)}, r, ty, c))


def run_values_profile(ctx, res, nschemas, pending):
    """documents that are reference serialisations of generated values (wide leaf table, list / restriction types,
    per-declaration forms on elements and attributes, groups, wildcards, top-level repeating content)"""
    from harness import valgen
    from harness.props import c01
    for i in range(nschemas):
        seed = ctx.seed * 100000 + i
        try:
            case = enginea.VCase(seed)
        except etree.XMLSchemaParseError:
            res.count("schema-rejected-by-libxml2")
            continue
        res.programs += 1
        for j in range(2):
            st, feat, rng = case.value(j)
            doc = valgen.strip_markers(valgen.ref_doc(case.src, st))
            if not case.validator.validate(doc):
                res.count("generated-doc-invalid")
                continue
            ty = case.model_type(xsdgen.height(doc) + 1)
            text = etree.tostring(doc).decode()
            c = dict(seed=seed, profile="values", index=j, xsd=case.xsd, document=text)
            res.case(key=("values", seed, text), nontrivial=len(doc) > 0)
            res.count("values-profile")
            r = enginea.impl_parse(case, enginea.copy_node(doc), True)
            fail = None
            if r["outcome"] != "ok":
                fail = "libxml2-valid document rejected in strict mode (%s %s)" % (r["outcome"], r.get("msg", ""))
            else:
                rr = enginea.impl_render(case, r["obj"])
                if rr["outcome"] != "ok":
                    fail = "decoded value cannot be re-serialised (%s %s)" % (rr["outcome"], rr.get("msg", ""))
                elif enginea.canon_doc(enginea.copy_node(rr["node"]), ty) != enginea.canon_doc(doc, ty):
                    fail = "re-serialising the decoded value does not reproduce the document"
                    c["reserialised"] = etree.tostring(rr["node"]).decode()
            if fail:
                f = dict(what=fail, case=c)
                known = "K8" if c01.is_k8_case(st) else ("K14" if "nil" in feat else ("K7" if "empty-lexical" in feat else None))
                if known:
                    f["known"] = known
                    res.known_hits[known] = res.known_hits.get(known, 0) + 1
                res.failures.append(f)
            if r["outcome"] == "ok" and not (feat & {"nil", "xsi:type"}):
                pending.append(({"op": "xsd.parse", "mode": "strict", "ty": ty, "node": xmlcanon.node(doc, strip_ws=True)}, r, ty, c))


def compare_model(ctx, res, pending, relation="Xsd.parseNode vs Element.parse"):
    if not (ctx.model and pending):
        return
    outs = ctx.model.run([p[0] for p in pending])
    for (mop, r, ty, c), mo in zip(pending, outs):
        m = mo.get("ok")
        if m is None:
            res.disagreements.append(dict(relation="driver error", case=c, model=mo))
            continue
        if "error" in m:
            if r["outcome"] != m["error"]:
                res.disagreements.append(dict(relation=relation + " (outcome)", case=c, model=m["error"], impl=r["outcome"]))
            continue
        if r["outcome"] != "ok":
            res.disagreements.append(dict(relation=relation + " (outcome)", case=c, model="ok", impl=r["outcome"]))
            continue
        mv = enginea.item_value(ty, m["item"])
        if mv != r["value"]:
            res.disagreements.append(dict(relation=relation + " (decoded value)", case=c, model=json.dumps(mv)[:600], impl=json.dumps(r["value"])[:600]))
        elif m["calls"] != r["calls"]:
            res.disagreements.append(dict(relation=relation + " (number of decode calls)", case=c, model=m["calls"], impl=r["calls"]))


def run(ctx):
    res = Result()
    import logging
    logging.getLogger("zeep").setLevel(logging.CRITICAL)
    pending = []
    run_profile(ctx, res, "core", ctx.n(300, 4000), 3, pending)
    run_profile(ctx, res, "multi-repeat", ctx.n(60, 600), 3, pending)
    run_values_profile(ctx, res, ctx.n(120, 1500), pending)
    compare_model(ctx, res, pending)
    from harness import multidoc
    multidoc.run_family(res, "C03")
    if pending:
        res.sample(dict(xsd=pending[0][3]["xsd"][:600], document=pending[0][3]["document"][:400]))
    res.rule = ("schemas from the section-5 generator (sequence / choice / all, nested complex types to depth 2, occurrence bounds incl. unbounded, "
                "attributes required/optional, simpleContent, nillable, repeated choice and repeated sequence, qualified/unqualified forms), 3 "
                "libxml2-valid documents each (occurrence counts min / min+1 / max, every choice branch, shuffled xsd:all, optional attribute subsets, "
                "xsi:nil, default-namespace or prefixed root); plus sequences holding two or three repeating particles; hand-written families outside the grammar (harness/multidoc.py): schemas split over xsd:include with every combination of form defaults, derivation through complexContent/restriction with xsi:type. distinct = distinct (schema, document); non-trivial = the root has children")
    return res


def search(ctx):
    return run(ctx)


def replay(ctx, payload):
    c = payload.get("case", payload)
    import random
    if c.get("kind") in ("multidoc", "multidoc-sequence"):
        from harness import multidoc
        return multidoc.replay("C03", c)
    if c["profile"] == "values":
        case = enginea.VCase(c["seed"])
        doc = etree.fromstring(c["document"].encode())
        ty = case.model_type(xsdgen.height(doc) + 1)
        r = enginea.impl_parse(case, doc, True)
        if r["outcome"] != "ok":
            return False, "strict decode: " + r["outcome"]
        rr = enginea.impl_render(case, r["obj"])
        ok = rr["outcome"] == "ok" and enginea.canon_doc(enginea.copy_node(rr["node"]), ty) == enginea.canon_doc(doc, ty)
        return ok, "re-serialisation %s" % ("reproduces the document" if ok else "differs / fails: %s" % rr.get("msg"))
    if c["profile"] == "multi-repeat":
        case = enginea.Case(c["seed"], c["profile"], src=xsdgen.multi_repeat_schema(random.Random("MR-%s" % c["seed"])))
    else:
        case = enginea.Case(c["seed"], c["profile"])
    doc = etree.fromstring(c["document"].encode())
    ty = case.model_type(xsdgen.height(doc) + 1)
    r = enginea.impl_parse(case, doc, True)
    if r["outcome"] != "ok":
        return False, "strict decode: " + r["outcome"]
    rr = enginea.impl_render(case, r["obj"])
    ok = rr["outcome"] == "ok" and enginea.canon_doc(rr["node"], ty) == enginea.canon_doc(doc, ty)
    return ok, "re-serialisation %s" % ("reproduces the document" if ok else "differs / fails: %s" % rr.get("msg"))


WITNESS = {
    "K17": ('<xs:schema xmlns:xs="http://www.w3.org/2001/XMLSchema" xmlns:t="urn:fam" targetNamespace="urn:fam" elementFormDefault="qualified">'
            '<xs:element name="note"><xs:complexType><xs:sequence><xs:element name="text" type="xs:string" minOccurs="0"/></xs:sequence></xs:complexType></xs:element>'
            '<xs:element name="root"><xs:complexType><xs:sequence><xs:element name="id" type="xs:int"/><xs:any/></xs:sequence></xs:complexType></xs:element></xs:schema>',
            '<root xmlns="urn:fam"><id>1</id><note><text>x</text></note></root>'),
    "K7": ('<xs:schema xmlns:xs="http://www.w3.org/2001/XMLSchema" xmlns:t="urn:fam" targetNamespace="urn:fam" elementFormDefault="qualified"><xs:element name="root" type="t:T1"/>'
           '<xs:complexType name="T1"><xs:sequence><xs:element name="a" type="xs:string"/><xs:element name="s" type="xs:string" minOccurs="0"/></xs:sequence></xs:complexType></xs:schema>',
           '<root xmlns="urn:fam"><a>x</a><s></s></root>'),
    "K8": ('<xs:schema xmlns:xs="http://www.w3.org/2001/XMLSchema" xmlns:t="urn:fam" targetNamespace="urn:fam" elementFormDefault="qualified"><xs:element name="root" type="t:T1"/>'
           '<xs:complexType name="T1"><xs:sequence><xs:element name="e" type="t:T2"/></xs:sequence></xs:complexType>'
           '<xs:complexType name="T2"><xs:sequence><xs:element name="o" type="xs:string" minOccurs="0"/></xs:sequence></xs:complexType></xs:schema>',
           '<root xmlns="urn:fam"><e/></root>'),
    "K14": ('<xs:schema xmlns:xs="http://www.w3.org/2001/XMLSchema" xmlns:t="urn:fam" targetNamespace="urn:fam" elementFormDefault="qualified"><xs:element name="root" type="t:T1"/>'
            '<xs:complexType name="T1"><xs:sequence><xs:element name="a" type="xs:string"/><xs:element name="n" type="xs:string" minOccurs="0" nillable="true"/></xs:sequence></xs:complexType></xs:schema>',
            '<root xmlns="urn:fam"><a>x</a><n xmlns:xsi="http://www.w3.org/2001/XMLSchema-instance" xsi:nil="true"/></root>'),
}


def replay_finding(ctx, finding):
    import zeep.xsd
    xsd, doc = WITNESS[finding["id"]]
    zs = zeep.xsd.Schema(etree.fromstring(xsd.encode()))
    root = zs.get_element("{urn:fam}root")
    d = etree.fromstring(doc.encode())
    try:
        v = root.parse(d, zs)
        parent = etree.Element("p")
        root.render(parent, v)
        return xmlcanon.node(parent[0]) != xmlcanon.node(d)
    except Exception:  # noqa
        return True
