"""C15 — cache backends and Transport.load: tie between lean/ZeepModel/Cache.lean and zeep.cache."""
import datetime
import itertools
import os
import shutil
import sqlite3
import tempfile
import threading
import types

from harness.core import Result, corpus_cases

LEAN_MODULES = ["ZeepProofs.C15"]
NS = "Zeep.Cache."
THEOREMS = [NS + t for t in (
    "c15_refines", "c15_spec_get", "c15_store_then_get", "c15_expired_is_miss", "c15_no_cross_url",
    "c15_version_isolated", "c15_only_stored", "c15_fetch_once",
)] + ["Zeep.Base64.base64_rt"]
LEVEL = "proof"
THOROUGH_SEEDS = 1          # the thorough tier of this check is already long: one further seed
MANIFEST = dict(
    engine="K: lean/ZeepModel/Cache.lean (+ Lex/Base64.lean)",
    technique="Lean 4 refinement proof (row store with version prefix and base64 refines 'latest store per url', induction over arbitrary histories with arbitrary clock values) + exhaustive differential tie under a controlled clock",
    text="c15_refines proves, for every history of add/get/load with any clock values and byte contents, that the model answers as the 'latest fresh store' map; corollaries give no-cross-url, version isolation, only-stored (hence for every interleaving of atomic operations) and at-most-one-fetch-per-window. The model is tied to SqliteCache / InMemoryCache / Transport.load by exhaustive short histories around second and expiry boundaries under a patched clock, random byte contents, and a multi-thread stress of one database file.",
    note="Trusted: Lean kernel + standard axioms; sqlite3 and its datetime adapters, RLock (atomicity of one add/get is assumed by the interleaving corollary and only stressed, not proved: that clause is partial); the expiry boundary is inclusive as pinned by tests/test_cache.py.",
    design_ref="DESIGN.md section 6, C15",
)
TRUSTED = ["sqlite3 (transactions, PARSE_DECLTYPES timestamp converter), threading.RLock", "base64 module agrees with the Lean model (tied on every stored content)"]
ASSUMPTIONS = [
    "each add/get is atomic (RLock + one sqlite transaction): runtime behaviour, stressed with threads but not proved",
    "the model's add is one atomic step: tied by the overwrite probe (lookups by a second SqliteCache object at every SQL statement of add) and the thread stress",
    "expiry boundary instant counts as fresh (now > created + timeout is the expiry test), as pinned by the suite",
]

BASE = datetime.datetime(2024, 1, 1, 12, 0, 0, tzinfo=datetime.timezone.utc)
US = 1000000


class Clock:
    value = 0  # microseconds after BASE


def _install_clock():
    import zeep.cache as zc

    class FakeDT(datetime.datetime):
        @classmethod
        def now(cls, tz=None):
            return BASE + datetime.timedelta(microseconds=Clock.value)

    zc.datetime = types.SimpleNamespace(
        datetime=FakeDT, timedelta=datetime.timedelta, timezone=datetime.timezone)
    return zc


def _uninstall_clock():
    import zeep.cache as zc
    zc.datetime = datetime


URLS = ["http://h/a.wsdl", "https://h/b.xsd?x=1",
        # urls that differ only in value-less query selectors or in the order of their parameters are different urls
        "http://h/a.wsdl?wsdl", "http://h/a.wsdl?singleWsdl", "http://h/s?b=2&a=1", "http://h/s?a=1&b=2"]
DAY = 86400 * 1000000


class Real:
    def __init__(self, zc, tmpdir):
        self.zc = zc
        self.path = os.path.join(tmpdir, "cache.db")
        self.sq = {}
        self.mem = {}
        self.tmpdir = tmpdir

    def backend(self, b, timeout_s):
        zc = self.zc
        if b == "mem":
            return zc.InMemoryCache(timeout=timeout_s)
        ver = b[2:]
        key = ver
        if key not in self.sq:
            cls = type("SqliteV" + ver, (zc.SqliteCache,), {"_version": ver})
            self.sq[key] = cls(path=self.path, timeout=timeout_s)
        c = self.sq[key]
        c._timeout = timeout_s
        return c

    def reset(self):
        self.zc.InMemoryCache._cache.clear()
        if os.path.exists(self.path):
            con = sqlite3.connect(self.path)
            con.execute("DELETE FROM request")
            con.commit()
            con.close()


def to_s(timeout_us):
    if timeout_us is None:
        return None
    assert timeout_us % US == 0
    return timeout_us // US


def run_real(real, ops, transport_factory=None):
    """ops in model format; returns outs in model format"""
    outs = []
    errors = []
    real.reset()
    for op in ops:
        kind, b, u = op[0], op[1], op[2]
        try:
            if kind == "add":
                Clock.value = op[4]
                real.backend(b, 3600).add(URLS[u], bytes(op[3]))
                outs.append(None)
            elif kind == "get":
                Clock.value = op[3]
                r = real.backend(b, to_s(op[4])).get(URLS[u])
                outs.append({"got": None if r is None else list(bytes(r))})
            elif kind == "load":
                Clock.value = op[4]
                tr, counter = transport_factory(real.backend(b, to_s(op[5])), bytes(op[3]))
                r = tr.load(URLS[u])
                outs.append({"loaded": list(bytes(r)), "fetched": counter[0] > 0})
        except Exception as e:  # noqa
            errors.append("%s: %r" % (op, e))
            outs.append({"error": type(e).__name__})
    return outs, errors


def spec_run(ops):
    """the property as a reference map: url -> (instant, backend, content)"""
    latest = {}
    outs = []
    for op in ops:
        kind, b, u = op[0], op[1], op[2]
        if kind == "add":
            latest[u] = (op[4], b, list(op[3]))
            outs.append(None)
            continue
        now, to = (op[3], op[4]) if kind == "get" else (op[4], op[5])
        hit = None
        if u in latest:
            t, by, c = latest[u]
            fresh = to is None or not (now > t + to)
            if fresh and by == b:
                hit = c
        if kind == "get":
            outs.append({"got": hit})
        else:
            if hit is not None:
                outs.append({"loaded": hit, "fetched": False})
            else:
                latest[u] = (now, b, list(op[3]))
                outs.append({"loaded": list(op[3]), "fetched": True})
    return outs


def make_transport_factory():
    import zeep.transports as zt

    def factory(cache, remote):
        counter = [0]
        tr = zt.Transport(cache=cache)

        def fake(url):
            counter[0] += 1
            return remote
        tr._load_remote_data = fake
        return tr, counter
    return factory


CONTENTS = [[65, 66], [0, 255, 10, 13], []]


def exhaustive_histories(backend, maxlen, timeout_us):
    """all sequences over add(u,c) x 4 and three clock advances; both urls are looked up after every step"""
    deltas = [1, US, 2 * US - 1]
    alpha = [("add", u, c) for u in (0, 1) for c in (0, 1)] + [("adv", d) for d in deltas]
    for L in range(1, maxlen + 1):
        for seq in itertools.product(alpha, repeat=L):
            if seq[0][0] == "adv":
                continue
            now = 0
            ops = []
            for s in seq:
                if s[0] == "adv":
                    now += s[1]
                else:
                    ops.append(["add", backend, s[1], CONTENTS[s[2]], now])
                for u in (0, 1):
                    ops.append(["get", backend, u, now, timeout_us])
                if timeout_us is not None:
                    # the same store seen through an instance with no timeout (instances share the data)
                    for u in (0, 1):
                        ops.append(["get", backend, u, now, None])
            yield ops


def random_history(rng, n):
    vers = rng.choice([["mem"], ["v:1"], ["v:1", "v:2"], ["v:1", "v:12"]])
    now = rng.choice([0, 1, 999999, 5 * US])
    ops = []
    timeouts = [rng.choice([None, 0, US, 2 * US, 3600 * US]) for _ in range(2)]
    for _ in range(n):
        timeout = rng.choice(timeouts)
        k = rng.random()
        b = rng.choice(vers)
        u = rng.randrange(2) if rng.random() < 0.5 else rng.randrange(len(URLS))
        if rng.random() < 0.6:
            now += rng.choice([0, 1, US - 1, US, US + 1, 2 * US, 2 * US - 1, 999999, 3600 * US, DAY, DAY + 1, DAY + US, 2 * DAY - 1, 7 * DAY + 2 * US])
        if k < 0.4:
            c = [rng.randrange(256) for _ in range(rng.choice([0, 1, 2, 3, 4, 5, 30]))]
            ops.append(["add", b, u, c, now])
        elif k < 0.8:
            ops.append(["get", b, u, now, timeout])
        else:
            c = [rng.randrange(256) for _ in range(rng.choice([0, 1, 3, 8]))]
            ops.append(["load", b, u, c, now, timeout])
    return ops


def check_batch(ctx, res, real, batch, factory, tag):
    mout = ctx.model.run([{"op": "cache.run", "ops": ops} for ops in batch]) if ctx.model else [None] * len(batch)
    for ops, mo in zip(batch, mout):
        outs, errors = run_real(real, ops, factory)
        exp = spec_run(ops)
        kinds = {o[0] for o in ops}
        res.case(key=ops, nontrivial=("add" in kinds or "load" in kinds) and len(kinds) >= 2)
        res.count(tag)
        for o, x in zip(ops, exp):
            if o[0] == "get":
                res.count("get:hit" if x["got"] is not None else "get:miss")
            elif o[0] == "load":
                res.count("load:fetch" if x["fetched"] else "load:cached")
        if errors or outs != exp:
            first = next((i for i, (a, b) in enumerate(zip(outs, exp)) if a != b), None)
            res.failures.append(dict(
                what="cache lookup differs from 'latest fresh store for that url'" if not errors else "cache raised: " + errors[0],
                case=dict(ops=ops), expected=exp, got=outs, first_divergence=first, errors=errors))
        elif mo is not None and ("err" in mo or mo["ok"]["outs"] != outs):
            res.disagreements.append(dict(relation="Cache.run vs zeep.cache", case=dict(ops=ops), model=mo, impl=outs))
    if batch:
        res.sample(dict(tag=tag, ops=batch[len(batch) // 2]), cap=6)


def thread_stress(ctx, res, real, nthreads, nops):
    """several threads on one database file: never raises, never returns bytes not stored for that url"""
    zc = real.zc
    real.reset()
    Clock.value = 0
    stored = {0: set(), 1: set()}
    committed = {0: False, 1: False}
    lock = threading.Lock()
    errors = []
    bad = []

    def worker(seed):
        import random
        rng = random.Random(seed)
        cache = zc.SqliteCache(path=real.path, timeout=3600)
        for i in range(nops):
            u = rng.randrange(2)
            try:
                if rng.random() < 0.4:
                    c = bytes([seed % 256, i % 256, rng.randrange(256)])
                    with lock:
                        stored[u].add(c)
                    cache.add(URLS[u], c)
                    committed[u] = True
                else:
                    was = committed[u]
                    r = cache.get(URLS[u])
                    if r is None and was:
                        bad.append((u, "nothing although an entry had been stored and is fresh"))
                    if r is not None:
                        with lock:
                            ok = bytes(r) in stored[u]
                        if not ok:
                            bad.append((u, list(bytes(r))))
            except Exception as e:  # noqa
                errors.append(repr(e))
    ts = [threading.Thread(target=worker, args=(ctx.seed * 100 + i,)) for i in range(nthreads)]
    for t in ts:
        t.start()
    for t in ts:
        t.join()
    res.case(key=("stress", nthreads, nops, ctx.seed))
    res.count("thread-stress-ops", nthreads * nops)
    if errors or bad:
        res.failures.append(dict(what="concurrent use of one cache database raised or returned foreign bytes",
                                 case=dict(kind="stress", threads=nthreads, ops=nops), errors=errors[:5], bad=bad[:5]))


def overwrite_probe(ctx, res, real):
    """statement-level interleaving: while one SqliteCache object overwrites the (fresh) entry of a url, a second object
    on the same file looks both urls up at the start of *every* SQL statement of the writer.  The model's add is one
    atomic step, so each lookup must return the old or the new bytes -- never nothing, never an exception."""
    zc = real.zc
    real.reset()
    Clock.value = 0
    writer = zc.SqliteCache(path=real.path, timeout=3600)
    reader = zc.SqliteCache(path=real.path, timeout=3600)
    real_connect = sqlite3.connect
    hook = {"cb": None}

    def connect(*a, **k):
        con = real_connect(*a, **k)
        if hook["cb"] is not None:
            con.set_trace_callback(hook["cb"])
        return con
    writer.add(URLS[0], b"gen-0")
    writer.add(URLS[1], b"other")
    seen = []

    def on_statement(sql):
        cb, hook["cb"] = hook["cb"], None          # the reader's own connection is not traced
        try:
            for u in (0, 1):
                try:
                    r = reader.get(URLS[u])
                    seen.append((sql.split()[0].upper(), u, None if r is None else bytes(r)))
                except Exception as e:  # noqa
                    seen.append((sql.split()[0].upper(), u, "raised " + repr(e)))
        finally:
            hook["cb"] = cb
    zc.sqlite3.connect = connect
    try:
        for gen in range(1, ctx.n(6, 40)):
            old, new = ("gen-%d" % (gen - 1)).encode(), ("gen-%d" % gen).encode()
            del seen[:]
            hook["cb"] = on_statement
            try:
                writer.add(URLS[0], new)
            finally:
                hook["cb"] = None
            res.case(key=("overwrite-probe", gen), nontrivial=True)
            res.count("overwrite-probe-lookups", len(seen))
            for stmt, u, got in seen:
                res.count("overwrite-probe-at:" + stmt)
                ok = got in (old, new) if u == 0 else got == b"other"
                if not ok:
                    res.failures.append(dict(
                        what="lookup through a second cache object while a fresh entry was being overwritten returned %r (at the writer's %s statement; "
                             "expected the old or the new bytes)" % (got, stmt),
                        case=dict(kind="overwrite-probe", generation=gen, url=u, statement=stmt)))
                    return
            if not any(st == "INSERT" for st, _, _ in seen):
                res.count("overwrite-probe-no-insert-seen")
    finally:
        zc.sqlite3.connect = real_connect


def run(ctx):
    res = Result()
    zc = _install_clock()
    tmp = tempfile.mkdtemp(prefix="zeepverif-c15-")
    try:
        real = Real(zc, tmp)
        factory = make_transport_factory()
        for name, c in corpus_cases("C15"):
            check_batch(ctx, res, real, [c["case"]["ops"]], factory, "corpus")
        L = 5 if ctx.tier == 'quick' else 6
        for backend in ("mem", "v:1"):
            batch = list(exhaustive_histories(backend, L if backend == "mem" else max(3, L - 1), 2 * US))
            res.extra["exhaustive_%s" % backend] = len(batch)
            check_batch(ctx, res, real, batch, factory, "exhaustive:" + backend)
        # timeout None: never expires
        batch = list(exhaustive_histories("v:1", 2, None))
        check_batch(ctx, res, real, batch, factory, "exhaustive:timeout-none")
        rnd = [random_history(ctx.rng, ctx.rng.randrange(2, 10)) for _ in range(ctx.n(600, 12000))]
        check_batch(ctx, res, real, rnd, factory, "random")
        thread_stress(ctx, res, real, ctx.n(4, 8), ctx.n(150, 1500))
        overwrite_probe(ctx, res, real)
    finally:
        _uninstall_clock()
        shutil.rmtree(tmp, ignore_errors=True)
    res.exhaustive = True
    res.programs = res.evaluations
    res.rule = ("all histories over add(2 urls x 2 contents) and clock advances {1us, 1s, 2s-1us} up to the stated length "
                "(timeout 2s, so the expiry instant and its neighbours are hit exactly), both urls looked up after every "
                "step, for both backends; random histories with two on-disk versions, random bytes, six urls (two pairs differing only in value-less query selectors / parameter order), clock advances up to several days, timeouts "
                "None/0/1s/2s/3600s and Transport.load with a counting fetcher; one multi-thread stress on a shared file; a statement-level "
                "interleaving probe (a second cache object looks both urls up at the start of every SQL statement of an overwrite). "
                "distinct = distinct op lists; non-trivial = stores and lookups both present")
    return res


def search(ctx):
    return run(ctx)


def replay(ctx, payload):
    case = payload.get("case", payload)
    if case.get("kind") == "stress":
        r = run(ctx)
        return (not r.failures), "stress rerun failures=%d" % len(r.failures)
    zc = _install_clock()
    tmp = tempfile.mkdtemp(prefix="zeepverif-c15-")
    if case.get("kind") == "overwrite-probe":
        try:
            r = Result()
            overwrite_probe(ctx, r, Real(zc, tmp))
        finally:
            _uninstall_clock()
            shutil.rmtree(tmp, ignore_errors=True)
        return (not r.failures), "overwrite probe rerun: %s" % (r.failures[0]["what"] if r.failures else "every lookup returned the old or the new bytes")
    try:
        real = Real(zc, tmp)
        outs, errors = run_real(real, case["ops"], make_transport_factory())
    finally:
        _uninstall_clock()
        shutil.rmtree(tmp, ignore_errors=True)
    exp = spec_run(case["ops"])
    return (outs == exp and not errors), f"expected {exp} got {outs} {errors}"


def replay_finding(ctx, finding):
    return False
