"""C04 — request framing: tie between lean/ZeepModel/Soap/Frame.lean and zeep's SOAP message serialisation."""
import io
import itertools

from lxml import etree

from harness.core import Result
from harness import xmlcanon

LEAN_MODULES = ["ZeepProofs.C04", "ZeepProofs.C04Flow"]
NS = "Zeep.Frame."
THEOREMS = [NS + t for t in ("c04_shape", "c04_doc_body", "c04_rpc_body", "c04_header_parts", "c04_no_header", "c04_http",
                             "c04_address", "c04_conventions", "body_found", "c04_envelope_ns_matches_source", "c04_content_type_11_matches_source", "c04_content_type_12_matches_source")]
LEVEL = "proof"
MANIFEST = dict(
    engine="E: lean/ZeepModel/Soap/Frame.lean",
    technique="Lean 4 structural theorems about the framing function (for every operation description, rendered part list and header list) + differential tie over generated WSDLs x argument sets x calling conventions with a recording transport; obligations re-checked by `decide` on every run against constants regenerated from the source (translator constants.py): envelope namespace per binding class, Content-Type literals of Soap11Binding / Soap12Binding._set_http_headers",
    text="c04_shape / c04_doc_body / c04_rpc_body / c04_header_parts / c04_http / c04_address are proved for every input of the framing function; the serialisation of each part is a parameter, tied to the standalone serialisation zeep's own element gives for the same argument. Tie: WSDL generator (SOAP 1.1/1.2 x document/rpc x 0-3 parts of element/type kind, simple and complex x 0-2 declared header parts x soapAction present/absent/empty x two services with equally named ports) x argument sets incl. falsy values x four calling conventions; envelope, address and HTTP headers captured at the transport are compared with the model and checked against the statement directly.",
    note="Trusted: standalone serialisation = zeep's own Element.render on the part element (its correctness is C02's subject).",
    design_ref="DESIGN.md section 6, C04",
)
TRUSTED = ["the part's standalone serialisation is taken from zeep's own xsd element (C02 covers it)"]
ASSUMPTIONS = []

ENVNS = {"1.1": "http://schemas.xmlsoap.org/soap/envelope/", "1.2": "http://www.w3.org/2003/05/soap-envelope"}
WSOAP = {"1.1": "http://schemas.xmlsoap.org/wsdl/soap/", "1.2": "http://schemas.xmlsoap.org/wsdl/soap12/"}

SCHEMA = """<xsd:schema targetNamespace="urn:t" elementFormDefault="qualified" xmlns:tns="urn:t">
  <xsd:complexType name="Pair"><xsd:sequence><xsd:element name="k" type="xsd:string"/><xsd:element name="n" type="xsd:int"/></xsd:sequence></xsd:complexType>
  <xsd:element name="es" type="xsd:string"/>
  <xsd:element name="ei" type="xsd:int"/>
  <xsd:element name="eb" type="xsd:boolean"/>
  <xsd:element name="ec" type="tns:Pair"/>
  <xsd:element name="hs" type="xsd:string"/>
  <xsd:element name="hi" type="xsd:int"/>
  <xsd:element name="hb" type="xsd:boolean"/>
</xsd:schema>"""

# part kinds: (kind, ref, sample values)
PART_KINDS = {
    "elem-string": ("element", "tns:es", ["hello", "", "x"]),
    "elem-int": ("element", "tns:ei", [7, 0, -1]),
    "elem-bool": ("element", "tns:eb", [True, False]),
    "elem-complex": ("element", "tns:ec", [{"k": "a", "n": 1}, {"k": "", "n": 0}]),
    "type-string": ("type", "xsd:string", ["s", ""]),
    "type-int": ("type", "xsd:int", [3, 0]),
    "type-complex": ("type", "tns:Pair", [{"k": "b", "n": 2}]),
}
HEADER_KINDS = {"hs": ("element", "tns:hs", ["hv", ""]), "hi": ("element", "tns:hi", [5, 0]), "hb": ("element", "tns:hb", [True, False])}


def build_wsdl(ops):
    """ops: list of dict(name, version, style, parts:[(pname, kindname)], headers:[hname], soap_action)"""
    msgs, ports, bindings, svc = "", "", "", {}
    for o in ops:
        parts = "".join('<part name="%s" %s="%s"/>' % (pn, PART_KINDS[k][0], PART_KINDS[k][1]) for pn, k in o["parts"])
        parts += "".join('<part name="%s" element="%s"/>' % (h, HEADER_KINDS[h][1]) for h in o["headers"])
        msgs += '<message name="m_%s">%s</message>' % (o["name"], parts)
        msgs += '<message name="r_%s"><part name="r" element="tns:es"/></message>' % o["name"]
        ports += '<portType name="pt_%s"><operation name="%s"><input message="tns:m_%s"/><output message="tns:r_%s"/></operation></portType>' % (
            o["name"], o["name"], o["name"], o["name"])
        sa = "" if o["soap_action"] is None else ' soapAction="%s"' % o["soap_action"].replace("&", "&amp;")
        nsattr = ' namespace="urn:rpc:%s"' % o["name"] if o["style"] == "rpc" else ""
        bodyparts = ""
        if o["headers"]:
            bodyparts = ' parts="%s"' % " ".join(pn for pn, _ in o["parts"])
        hdr = "".join('<soap:header message="tns:m_%s" part="%s" use="literal"/>' % (o["name"], h) for h in o["headers"])
        # where the style is declared: on the binding, or on the operation overriding a different / absent binding default (WSDL 1.1 s3.4)
        decl = o.get("style_decl", "binding")
        other = "rpc" if o["style"] == "document" else "document"
        bstyle = {"binding": ' style="%s"' % o["style"], "operation-override": ' style="%s"' % other, "operation-only": ""}[decl]
        ostyle = "" if decl == "binding" else ' style="%s"' % o["style"]
        bindings += ('<binding name="b_%s" type="tns:pt_%s" xmlns:soap="%s"><soap:binding%s transport="http://schemas.xmlsoap.org/soap/http"/>'
                     '<operation name="%s"><soap:operation%s%s/><input><soap:body use="literal"%s%s/>%s</input><output><soap:body use="literal"/></output></operation></binding>'
                     % (o["name"], o["name"], WSOAP[o["version"]], bstyle, o["name"], sa, ostyle, nsattr, bodyparts if False else "", hdr))
        svc.setdefault(o["service"], []).append(
            '<port name="%s" binding="tns:b_%s" xmlns:soap="%s"><soap:address location="%s"/></port>' % (o["port"], o["name"], WSOAP[o["version"]], o["address"]))
    services = "".join('<service name="%s">%s</service>' % (s, "".join(ps)) for s, ps in svc.items())
    return ('<?xml version="1.0"?><definitions xmlns="http://schemas.xmlsoap.org/wsdl/" xmlns:xsd="http://www.w3.org/2001/XMLSchema" '
            'xmlns:tns="urn:t" targetNamespace="urn:t"><types>%s</types>%s%s%s%s</definitions>' % (SCHEMA, msgs, ports, bindings, services))


def gen_ops(ctx):
    rng = ctx.rng
    ops = []
    n = 0
    kinds = list(PART_KINDS)
    for version in ("1.1", "1.2"):
        for style in ("document", "rpc"):
            for nparts in (0, 1, 2, 3):
                for nh in (0, 1, 2):
                    for sa in ("PRESENT", None, ""):
                        if sa == "PRESENT":
                            # action URIs are opaque strings: already-escaped octets, spaces, non-ASCII, query and fragment must arrive unchanged
                            sa = ACTIONS[n % len(ACTIONS)]
                        if style == "document":
                            # document/literal: element parts (type parts are not legal there)
                            ks = [k for k in kinds if k.startswith("elem")]
                        else:
                            ks = kinds
                        parts = [("p%d" % i, ks[(n + i * 3) % len(ks)]) for i in range(nparts)]
                        headers = list(HEADER_KINDS)[(n % 3):][:nh] if nh else []
                        if nh == 2 and len(headers) < 2:
                            headers = ["hs", "hi"]
                        ops.append(dict(name="op%d" % n, version=version, style=style, parts=parts, headers=headers, soap_action=sa,
                                        style_decl=("binding", "operation-override", "binding", "operation-only")[n % 4],
                                        service="svcA" if n % 2 == 0 else "svcB", port="Main" if n % 24 in (6, 13) else "p%d" % n,
                                        address="http://%s.example/%d" % ("a" if n % 2 == 0 else "b", n)))
                        n += 1
    return ops


OVERLAP_WSDL = """<?xml version="1.0"?>
<definitions xmlns="http://schemas.xmlsoap.org/wsdl/" xmlns:soap="http://schemas.xmlsoap.org/wsdl/%(soapns)s/"
  xmlns:xsd="http://www.w3.org/2001/XMLSchema" xmlns:tns="urn:t" targetNamespace="urn:t">
  <types><xsd:schema targetNamespace="urn:t" elementFormDefault="qualified">
      <xsd:element name="in"><xsd:complexType><xsd:sequence><xsd:element name="text" type="xsd:string"/></xsd:sequence></xsd:complexType></xsd:element>
      <xsd:element name="out" type="xsd:string"/>
      <xsd:element name="session"><xsd:complexType><xsd:sequence><xsd:element name="token" type="xsd:string"/></xsd:sequence></xsd:complexType></xsd:element>
  </xsd:schema></types>
  <message name="mi"><part name="p" element="tns:in"/></message><message name="mo"><part name="p" element="tns:out"/></message>
  <message name="mh"><part name="session" element="tns:session"/></message>
  <message name="mr"><part name="text" type="xsd:string"/></message>
  <portType name="pt"><operation name="op"><input message="tns:mi"/><output message="tns:mo"/></operation>
     <operation name="rop"><input message="tns:mr"/><output message="tns:mo"/></operation></portType>
  <binding name="b" type="tns:pt"><soap:binding style="document" transport="http://schemas.xmlsoap.org/soap/http"/>
    <operation name="op"><soap:operation soapAction="urn:op"/><input><soap:header message="tns:mh" part="session" use="literal"/><soap:body use="literal"/></input><output><soap:body use="literal"/></output></operation>
    <operation name="rop"><soap:operation soapAction="urn:rop" style="rpc"/><input><soap:body use="literal" namespace="urn:rpc"/></input><output><soap:body use="literal"/></output></operation>
  </binding>
  <service name="svc"><port name="p" binding="tns:b"><soap:address location="http://h.example/s"/></port></service>
</definitions>"""


class HeldText:
    """a value whose conversion to text can be held up (a lazily computed string): the serialisation of the call that
    carries it pauses there until released"""

    def __init__(self, text, entered=None, release=None):
        self.text, self.entered, self.release, self.first = text, entered, release, True

    def __str__(self):
        if self.first and self.entered is not None:
            self.first = False
            self.entered.set()
            self.release.wait(20)
        return self.text

    def __deepcopy__(self, memo):
        return self


def overlap_probe(ctx, res):
    """two calls of the same operation on one client overlap: thread A is held inside the serialisation of its request (while
    a body or header value is converted to text) until thread B has sent a complete request.  Every request at the transport
    must be one Envelope = [Header?] Body carrying the values of the call that produced it."""
    import threading
    z = _zeep()
    for soapns, envns in (("soap", "http://schemas.xmlsoap.org/soap/envelope/"), ("soap12", "http://www.w3.org/2003/05/soap-envelope")):
        for opname, hold in (("op", "body"), ("op", "header"), ("rop", "body")):
            sent = {}

            class T(z.transports.Transport):
                def post_xml(self, address, envelope, headers):
                    sent.setdefault(threading.current_thread().name, []).append(etree.fromstring(etree.tostring(envelope)))

                    class R:
                        status_code, headers, encoding = 200, {"Content-Type": "text/xml"}, "utf-8"
                        content = ('<e:Envelope xmlns:e="%s"><e:Body><out xmlns="urn:t">r</out></e:Body></e:Envelope>' % envns).encode()
                    return R()
            client = z.Client(io.BytesIO((OVERLAP_WSDL % dict(soapns=soapns)).encode()), transport=T())
            entered, release = threading.Event(), threading.Event()
            errors = []

            def call(tag, held):
                try:
                    text = HeldText("body-" + tag, entered, release) if held == "body" else "body-" + tag
                    if opname == "op":
                        tok = HeldText("tok-" + tag, entered, release) if held == "header" else "tok-" + tag
                        client.service.op(text=text, _soapheaders={"session": {"token": tok}})
                    else:
                        client.service.rop(text=text)
                except Exception as e:  # noqa
                    errors.append("%s: %s: %s" % (tag, type(e).__name__, e))
            ta = threading.Thread(target=call, args=("A", hold), name="A")
            ta.start()
            if not entered.wait(10):
                release.set()
                ta.join(10)
                res.count("overlap-probe:hold-point-not-reached")
                continue
            tb = threading.Thread(target=call, args=("B", None), name="B")
            tb.start()
            tb.join(20)
            release.set()
            ta.join(20)
            res.case(key=("overlap", soapns, opname, hold), nontrivial=True)
            res.count("overlap-probe")
            case = dict(kind="overlap", soap=soapns, operation=opname, held_in=hold)
            fail = errors[0] if errors else None
            for tag in ("A", "B"):
                if fail:
                    break
                envs = sent.get(tag, [])
                if len(envs) != 1:
                    fail = "thread %s sent %d requests" % (tag, len(envs))
                    break
                env = envs[0]
                kids = [etree.QName(k.tag).localname for k in env]
                if env.tag != "{%s}Envelope" % envns or kids not in (["Header", "Body"], ["Body"]):
                    fail = "request of thread %s is framed %s > %r" % (tag, etree.QName(env.tag).localname, kids)
                    break
                texts = [t for t in env.itertext() if t.strip()]
                exp = ["tok-" + tag, "body-" + tag] if opname == "op" else ["body-" + tag]
                if texts != exp:
                    fail = "request of thread %s carries %r, its call supplied %r" % (tag, texts, exp)
            if fail:
                res.failures.append(dict(what="overlapping serialisations of one operation interfered: " + fail, case=case))


ACTIONS = ["urn:act", "http://h.example/svc/Get%20Item", "urn:act:with space", "http://h.example/\u00c5\u00c4/op?x=1&y=2#frag", "urn:a%2Fb%25c", "urn:act"]


def _zeep():
    import zeep
    import zeep.transports
    return zeep


class Stop(Exception):
    pass


def make_client(wsdl_text):
    z = _zeep()
    captured = []

    class T(z.transports.Transport):
        def post(self, address, message, headers):
            captured.append((address, etree.fromstring(message), dict(headers)))
            raise Stop()
    return z.Client(io.BytesIO(wsdl_text.encode()), transport=T()), captured


def standalone(client, kindname, pname, value, style):
    """nodes the part's own element serialises this argument to"""
    kind, ref, _ = {**PART_KINDS, **HEADER_KINDS}[kindname]
    if kind == "element":
        el = client.wsdl.types.get_element("{urn:t}" + ref.split(":")[1])
    else:
        import zeep.xsd
        prefix, local = ref.split(":")
        ns = "urn:t" if prefix == "tns" else "http://www.w3.org/2001/XMLSchema"
        el = zeep.xsd.Element(pname, client.wsdl.types.get_type("{%s}%s" % (ns, local)))
    parent = etree.Element("parent")
    v = value
    if isinstance(value, dict):
        v = el.type(**value)
    el.render(parent, v)
    return [xmlcanon.node(c, strip_ws=False) for c in parent]


def run(ctx):
    res = Result()
    import logging
    logging.getLogger("zeep").setLevel(logging.CRITICAL)
    ops = gen_ops(ctx)
    # several WSDLs of 24 operations each (two services with equally named ports in each)
    chunks = [ops[i:i + 24] for i in range(0, len(ops), 24)]
    pending = []
    conv_names = ["service-proxy-or-bind", "bind", "create_service", "create_message"]
    for chunk in chunks:
        # make sure both services of the chunk own a port called "Main" bound to different operations
        wsdl_text = build_wsdl(chunk)
        client, captured = make_client(wsdl_text)
        res.programs += 1
        for oi, o in enumerate(chunk):
            vals_per_part = [PART_KINDS[k][2] for _, k in o["parts"]]
            hvals = [HEADER_KINDS[h][2] for h in o["headers"]]
            nvar = max([len(v) for v in vals_per_part + hvals] + [1])
            for vi in range(nvar):
                args = {pn: PART_KINDS[k][2][vi % len(PART_KINDS[k][2])] for pn, k in o["parts"]}
                hargs = {h: HEADER_KINDS[h][2][vi % len(HEADER_KINDS[h][2])] for h in o["headers"]}
                conv = conv_names[(oi + vi) % 4]
                case = dict(op={k: v for k, v in o.items()}, args=args, headers=hargs, convention=conv)
                kwargs = dict(args)
                if o["style"] == "rpc":
                    # rpc: element parts are addressed by their element's name, type parts by the part name
                    kwargs = {(PART_KINDS[k][1].split(":")[1] if PART_KINDS[k][0] == "element" else pn): args[pn] for pn, k in o["parts"]}
                pos = ()
                if o["style"] == "document" and len(o["parts"]) == 1:
                    # bare document/literal: the call signature is that of the part element itself
                    only = args[o["parts"][0][0]]
                    if isinstance(only, dict):
                        kwargs = dict(only)
                    else:
                        kwargs, pos = {}, (only,)
                if hargs:
                    kwargs["_soapheaders"] = dict(hargs)
                del captured[:]
                try:
                    if conv == "create_message":
                        svc = client.bind(o["service"], o["port"])
                        env = client.create_message(svc, o["name"], *pos, **kwargs)
                        address, http = o["address"], None
                    else:
                        if conv == "create_service":
                            svc = client.create_service("{urn:t}b_%s" % o["name"], o["address"])
                        else:
                            svc = client.bind(o["service"], o["port"])
                        try:
                            getattr(svc, o["name"])(*pos, **kwargs)
                        except Stop:
                            pass
                        address, env, http = captured[0]
                except Exception as e:  # noqa
                    res.failures.append(dict(what="building the request raised %s: %s" % (type(e).__name__, e), case=case))
                    continue
                res.case(key=(o["name"], vi, conv), nontrivial=True)
                res.count("version:" + o["version"])
                res.count("style:" + o["style"])
                res.count("parts=%d" % len(o["parts"]))
                res.count("headers=%d" % len(o["headers"]))
                res.count("conv:" + conv)
                res.count("soapAction:" + ("absent" if o["soap_action"] is None else ("empty" if o["soap_action"] == "" else "present")))
                # ---- the statement, directly
                e = ENVNS[o["version"]]
                fail = None
                rendered = [standalone(client, k, pn, args[pn], o["style"]) for pn, k in o["parts"]]
                hrendered = [standalone(client, h, h, hargs[h], o["style"]) for h in o["headers"]]
                kids = [c.tag for c in env]
                body = env.find("{%s}Body" % e)
                header = env.find("{%s}Header" % e)
                if env.tag != "{%s}Envelope" % e:
                    fail = "root is %s" % env.tag
                elif kids not in (["{%s}Body" % e], ["{%s}Header" % e, "{%s}Body" % e]):
                    fail = "Envelope children %r" % kids
                else:
                    bk = [xmlcanon.node(c, strip_ws=False) for c in body]
                    flat = [n for r in rendered for n in r]
                    if o["style"] == "document":
                        if bk != flat:
                            fail = "document Body does not hold the parts in message order, each as its standalone serialisation"
                    else:
                        if len(bk) != 1 or bk[0]["t"] != ["urn:rpc:%s" % o["name"], o["name"]]:
                            fail = "rpc Body does not hold a single wrapper {urn:rpc:%s}%s" % (o["name"], o["name"])
                        elif bk[0]["k"] != flat:
                            fail = "rpc wrapper children are not the parts by name, each as its standalone serialisation"
                    hk = [] if header is None else [xmlcanon.node(c, strip_ws=False) for c in header]
                    hflat = [n for r in hrendered for n in r]
                    if not fail and hk != hflat:
                        fail = "Header %r does not hold the declared header parts that were passed %r" % (
                            [x["t"][1] + "=" + str(x["x"]) for x in hk], [x["t"][1] + "=" + str(x["x"]) for x in hflat])
                if not fail and address != o["address"]:
                    fail = "posted to %r, port address is %r" % (address, o["address"])
                if not fail and http is not None:
                    ct = http.get("Content-Type")
                    sa = o["soap_action"]
                    if o["version"] == "1.1":
                        if ct != "text/xml; charset=utf-8" or http.get("SOAPAction") != '"%s"' % (sa or ""):
                            fail = "SOAP 1.1 HTTP headers %r" % http
                    else:
                        exp = "application/soap+xml; charset=utf-8" + ('; action="%s"' % sa if sa is not None else "")
                        if ct != exp:
                            fail = "SOAP 1.2 Content-Type %r, expected %r" % (ct, exp)
                if fail:
                    res.failures.append(dict(what=fail, case=case, envelope=etree.tostring(env).decode()))
                    continue
                mop = {"op": "soap.frame", "rendered": rendered, "headers": ([n for r in hrendered for n in r] if hargs else None),
                       "opdesc": dict(version=o["version"], style=o["style"], name=o["name"],
                                      rpc_namespace=("urn:rpc:%s" % o["name"]) if o["style"] == "rpc" else None,
                                      soap_action=o["soap_action"], address=o["address"], body_parts=len(o["parts"]))}
                pending.append((mop, xmlcanon.node(env, strip_ws=False), address, http, case))
    overlap_probe(ctx, res)
    if ctx.model and pending:
        outs = ctx.model.run([p[0] for p in pending])
        for (mop, envn, address, http, case), mo in zip(pending, outs):
            if "err" in mo:
                res.disagreements.append(dict(relation="driver error", case=case, model=mo))
                continue
            m = mo["ok"]
            bad = None
            if m["envelope"] != envn:
                bad = "envelope"
            elif m["address"] != address:
                bad = "address"
            elif http is not None and (m["content_type"] != http.get("Content-Type") or m["soap_action"] != http.get("SOAPAction")):
                bad = "http headers"
            if bad:
                res.disagreements.append(dict(relation="Frame.frame vs captured request (%s)" % bad, case=case, model=m,
                                              impl=dict(envelope=envn, address=address, http=http)))
    res.sample(dict(op=ops[37], note="one of %d generated operations" % len(ops)))
    res.exhaustive = True
    res.rule = ("operations: 2 versions x 2 styles x 0-3 body parts (kinds rotated over element/type x string/int/boolean/complex) x 0-2 "
                "declared header parts x soapAction present/absent/empty, spread over WSDLs of 24 operations with two services whose "
                "ports share the name 'Main'; argument variants include falsy values (0, False, ''); calling convention rotated over "
                "bind, create_service, create_message. distinct = distinct (operation, argument variant, convention)")
    return res


def search(ctx):
    return run(ctx)


def replay(ctx, payload):
    r = run(ctx)
    case = payload.get("case", payload)
    bad = [f for f in r.failures if f["case"]["op"].get("name") == case["op"].get("name")]
    return (not bad), "rerun: %d failures for %s" % (len(bad), case["op"].get("name"))


def replay_finding(ctx, finding):
    return False
