"""C18 — UsernameToken: tie between lean/ZeepModel/Soap/Wsse.lean (+ executable SHA-1/Base64) and zeep.wsse."""
import base64
import datetime
import hashlib
import itertools

from lxml import etree

from harness.core import Result

LEAN_MODULES = ["ZeepProofs.C18"]
NS = "Zeep.Wsse."
THEOREMS = [NS + t for t in ("c18_text", "c18_digest_consistent", "c18_fresh_nonce", "c18_single_security", "c18_token_in_security")] + ["Zeep.Base64.base64_rt"]
LEVEL = "proof"
MANIFEST = dict(
    engine="E: lean/ZeepModel/Soap/Wsse.lean + Lex/Sha1.lean + Lex/Base64.lean",
    technique="Lean 4 theorems relating the emitted Password / Nonce / Created for any hash function (digest consistency via the proved base64 round trip), find-or-create structure theorems for Security / UsernameToken + differential tie where every emitted token is re-verified by hashlib and by the Lean model's own executable SHA-1",
    text="c18_digest_consistent proves, for every configuration and every hash function, that the Password emitted in digest mode is Base64(H(nonce||created||password')) for the nonce obtained by base64-decoding the emitted Nonce; c18_text, c18_single_security, c18_token_in_security and c18_fresh_nonce cover the other clauses. Tied by applying tokens over the whole configuration grid (unicode/bytes/empty passwords, nonce and created supplied or not, digest/text, hash_password, zulu, pre-existing Header/Security/UsernameToken shapes, Timestamp) and over repeated applications of one token object, recomputing every digest with hashlib (independent judge) and with the Lean model.",
    note="Trusted: os.urandom freshness (nonce uniqueness is observed over the run, not proved), the UTF-8 encoding done by the harness, hashlib as the independent judge. A bytes password in text mode raises TypeError before anything is attached (loud; counted, not judged).",
    design_ref="DESIGN.md section 6, C18",
)
TRUSTED = ["os.urandom as the random source", "hashlib.sha1 as independent judge of emitted digests"]
ASSUMPTIONS = ["the caller-prepared password_digest is outside the digest clause (used as given)"]

ENV = "http://schemas.xmlsoap.org/soap/envelope/"
WSSE = "http://docs.oasis-open.org/wss/2004/01/oasis-200401-wss-wssecurity-secext-1.0.xsd"
WSU = "http://docs.oasis-open.org/wss/2004/01/oasis-200401-wss-wssecurity-utility-1.0.xsd"
PT = "http://docs.oasis-open.org/wss/2004/01/oasis-200401-wss-username-token-profile-1.0"


def _zeep():
    import zeep.wsse.username
    import zeep.wsse.utils
    import zeep
    return zeep


HEADER_SHAPES = {
    "no-header": None,
    "empty-header": [],
    "other-entry": [{"other": "{urn:x}Custom"}],
    "empty-security": [{"sec": []}],
    "security-with-attr": [{"sec": [], "attr": True}],
    "security-ws-only": [{"sec": [], "ws": True}],
    "security-placeholder": [{"sec": [{"token": []}]}],
    "security-timestamp": [{"other": "{urn:x}Custom"}, {"sec": [{"ts": "existing"}]}],
    "security-other-then-token": [{"sec": [{"other": "{urn:y}BinaryToken"}, {"token": []}]}],
    # a header entry that is merely *called* Security, in another namespace (an application header, a pre-OASIS draft)
    "foreign-security-entry": [{"other": "{urn:app:headers}Security"}],
    "foreign-security-and-real": [{"other": "{http://schemas.xmlsoap.org/ws/2002/04/secext}Security"}, {"sec": []}],
}


def build_envelope(shape, embedded=False):
    env = etree.Element("{%s}Envelope" % ENV, nsmap={"soap-env": ENV})
    if shape is not None:
        h = etree.SubElement(env, "{%s}Header" % ENV)
        for item in shape:
            if "sec" in item:
                s = etree.SubElement(h, "{%s}Security" % WSSE)
                if item.get("attr"):
                    s.set("{%s}mustUnderstand" % ENV, "1")
                if item.get("ws"):
                    s.text = "\n   "
                for k in item["sec"]:
                    if "token" in k:
                        etree.SubElement(s, "{%s}UsernameToken" % WSSE)
                    elif "ts" in k:
                        t = etree.SubElement(s, "{%s}Timestamp" % WSU)
                        t.text = k["ts"]
                    else:
                        etree.SubElement(s, k["other"])
            else:
                etree.SubElement(h, item["other"])
    b = etree.SubElement(env, "{%s}Body" % ENV)
    p = etree.SubElement(b, "{urn:t}in")
    p.text = "x"
    if embedded:
        # a relayed message: the payload carries a complete SOAP envelope of its own, with a Header and a Security entry
        p.text = None
        inner = etree.SubElement(p, "{%s}Envelope" % ENV)
        ih = etree.SubElement(inner, "{%s}Header" % ENV)
        etree.SubElement(etree.SubElement(ih, "{%s}Security" % WSSE), "{%s}UsernameToken" % WSSE)
        etree.SubElement(etree.SubElement(inner, "{%s}Body" % ENV), "{urn:t}in").text = "inner"
    return env


def embedded_untouched(env):
    inner = env.find("{%s}Body/{urn:t}in/{%s}Envelope" % (ENV, ENV))
    if inner is None:
        return True
    tok = inner.find("{%s}Header/{%s}Security/{%s}UsernameToken" % (ENV, WSSE, WSSE))
    return tok is not None and len(tok) == 0 and len(inner.find("{%s}Header" % ENV)) == 1


class SteppingClock:
    """datetime.now() for zeep.wsse.utils: every read is 0.4 s later than the one before, so two reads inside one
    apply() straddle a second boundary every other time"""
    reads = 0

    @classmethod
    def install(cls):
        import zeep.wsse.utils as wu
        import types

        class DT(datetime.datetime):
            @classmethod
            def now(klass, tz=None):
                cls.reads += 1
                return datetime.datetime(2024, 5, 5, 10, 0, 0, tzinfo=tz) + datetime.timedelta(milliseconds=400 * cls.reads)
        wu.datetime = types.SimpleNamespace(datetime=DT, timezone=datetime.timezone, timedelta=datetime.timedelta)

    @classmethod
    def uninstall(cls):
        import zeep.wsse.utils as wu
        wu.datetime = datetime


def read_header(env):
    h = env.find("{%s}Header" % ENV)
    out = []
    if h is None:
        return None
    for c in h:
        if c.tag == "{%s}Security" % WSSE:
            ks = []
            for s in c:
                if s.tag == "{%s}UsernameToken" % WSSE:
                    ts = []
                    for t in s:
                        ln = etree.QName(t.tag).localname
                        txt = (t.text or "")
                        if ln == "Username":
                            ts.append({"username": list(txt.encode())})
                        elif ln == "Password":
                            ty = t.get("Type", "")
                            ts.append({"password": list(txt.encode()), "type": "digest" if ty.endswith("#PasswordDigest") else ("text" if ty.endswith("#PasswordText") else ty)})
                        elif ln == "Nonce":
                            ts.append({"nonce": txt})
                        elif ln == "Created":
                            ts.append({"created": list(txt.encode())})
                        else:
                            ts.append({"other": t.tag})
                    ks.append({"token": ts})
                elif s.tag == "{%s}Timestamp" % WSU:
                    ks.append({"ts": s.text or ""})
                else:
                    ks.append({"other": s.tag})
            out.append({"sec": ks})
        else:
            out.append({"other": c.tag})
    return out


def enc(x):
    if x is None:
        return None
    return list(x.encode() if isinstance(x, str) else bytes(x))


USERNAMES = ["scott", "üser 中", ""]
PASSWORDS = ["secret", "pässwörd \U0001F511", "", b"\x00\xffbytes", None,
             "pa\u0308ss e\u0301 \u212b \u2126"]      # not in NFC form: the secret is the code points as configured
NONCES = [None, "", "fixed-nonce-1", "nöncé"]
CREATED = [None, datetime.datetime(2024, 2, 29, 23, 59, 59, 999999), datetime.datetime(2000, 1, 1, 0, 0, 0)]


def model_shape(shape):
    if shape is None:
        return None
    out = []
    for item in shape:
        if "sec" in item:
            out.append({"sec": [dict(k) if "token" not in k else {"token": []} for k in item["sec"]]})
        else:
            out.append({"other": item["other"]})
    return out


def judge(cfg, before_shape, hdr, seen_nonces):
    """the statement, with hashlib as judge; returns failure text or None"""
    secs = [h for h in (hdr or []) if "sec" in h]
    nbefore = len([h for h in (before_shape or []) if "sec" in h])
    if len(secs) != max(1, nbefore):
        return "%d wsse:Security entries in the Header (existing one not reused / none created)" % len(secs)
    sec = secs[0]["sec"]
    toks = [k for k in sec if "token" in k]
    if len(toks) != 1:
        return "%d UsernameToken elements in the Security entry" % len(toks)
    if cfg["timestamp"] is not None and {"ts": cfg["timestamp"]} not in sec:
        return "caller-supplied Timestamp missing beside the token"
    t = toks[0]["token"]
    names = [list(x.keys())[0] for x in t]
    if names[0] != "username" or bytes(t[0]["username"]).decode() != cfg["username"]:
        return "Username element wrong"
    has_pw = cfg["password"] is not None or cfg["password_digest"] is not None
    if not has_pw:
        return None if names == ["username"] else "unexpected elements %r without password" % names
    pw = next((x for x in t if "password" in x), None)
    if pw is None:
        return "Password element missing"
    if not cfg["use_digest"]:
        if pw["type"] != "text":
            return "Password Type is not PasswordText"
        if bytes(pw["password"]) != cfg["password"].encode():
            return "Password text is not the configured password"
        return None
    if pw["type"] != "digest":
        return "Password Type is not PasswordDigest"
    nonce = next((x["nonce"] for x in t if "nonce" in x), None)
    created = next((x["created"] for x in t if "created" in x), None)
    if nonce is None or created is None:
        return "digest token without Nonce / Created"
    try:
        nb = base64.b64decode(nonce, validate=True)
    except Exception:  # noqa
        return "Nonce is not base64"
    if cfg["nonce"]:
        if nb != cfg["nonce"].encode():
            return "supplied nonce not used"
    else:
        if nb in seen_nonces:
            return "nonce reused across requests (replay)"
        seen_nonces.add(nb)
    if cfg["password_digest"]:
        return None if bytes(pw["password"]) == enc_bytes(cfg["password_digest"]) else "prepared digest altered"
    p = cfg["password"]
    pb = p.encode() if isinstance(p, str) else bytes(p)
    if cfg["hash_password"]:
        pb = hashlib.sha1(pb).digest()
    exp = base64.b64encode(hashlib.sha1(nb + bytes(created) + pb).digest())
    if bytes(pw["password"]) != exp:
        return "Password digest does not verify: Base64(SHA-1(nonce+created+password)) differs"
    return None


def enc_bytes(x):
    return x.encode() if isinstance(x, str) else bytes(x)


def one_apply(z, token, cfg, shape_name, res, seen, pending, case_extra=None):
    shape = HEADER_SHAPES[shape_name]
    embedded = bool(case_extra and case_extra.get("embedded_envelope"))
    env = build_envelope(shape, embedded)
    case = dict(config={k: (v if not isinstance(v, (bytes, datetime.datetime)) else repr(v)) for k, v in cfg.items()}, header=shape_name)
    if case_extra:
        case.update(case_extra)
    try:
        token.apply(env, {})
    except TypeError as e:
        if isinstance(cfg["password"], bytes) and not cfg["use_digest"]:
            res.count("bytes-password-text-mode(TypeError)")
            return
        res.failures.append(dict(what="apply raised TypeError: %s" % e, case=case))
        return
    except Exception as e:  # noqa
        res.failures.append(dict(what="apply raised %s: %s" % (type(e).__name__, e), case=case))
        return
    hdr = read_header(env)
    fail = judge(cfg, shape, hdr, seen)
    if not fail and not embedded_untouched(env):
        fail = "the token was written into the envelope embedded in the Body"
    if fail:
        res.failures.append(dict(what=fail, case=case, header_after=hdr))
        return
    # model: rnd and created are read off the emitted token
    tok = next(k for h in hdr if "sec" in h for k in h["sec"] if "token" in k)["token"]
    nonce = next((x["nonce"] for x in tok if "nonce" in x), None)
    created = next((x["created"] for x in tok if "created" in x), [])
    rnd = list(base64.b64decode(nonce)) if nonce else []
    mcfg = dict(username=enc(cfg["username"]), password=enc(cfg["password"]), password_digest=enc(cfg["password_digest"]),
                use_digest=bool(cfg["use_digest"]), nonce=enc(cfg["nonce"]), created=created, timestamp=cfg["timestamp"],
                hash_password=bool(cfg["hash_password"]))
    pending.append(({"op": "wsse.apply", "config": mcfg, "rnd": rnd, "header": model_shape(shape)}, hdr, case))


def run(ctx):
    SteppingClock.install()
    try:
        return _run(ctx)
    finally:
        SteppingClock.uninstall()


def _run(ctx):
    res = Result()
    z = _zeep()
    UT = z.wsse.username.UsernameToken
    seen = set()
    pending = []
    rng = ctx.rng
    grid = list(itertools.product(USERNAMES, PASSWORDS, (False, True), NONCES, CREATED, (None, True), (None, True)))
    shapes = list(HEADER_SHAPES)
    n = 0
    for (u, p, dig, nonce, created, zulu, hashpw) in grid:
        if not dig and (nonce or created or hashpw):
            if (n % 7) != 0:      # these options are ignored in text mode: keep a sample only
                n += 1
                continue
        shape_name = shapes[n % len(shapes)]
        n += 1
        ts = None
        if n % 5 == 0:
            ts = "ts-%d" % n
        cfg = dict(username=u, password=p, password_digest=None, use_digest=dig, nonce=nonce, created=created,
                   zulu_timestamp=zulu, hash_password=hashpw, timestamp=ts)
        tse = None
        if ts:
            tse = etree.Element("{%s}Timestamp" % WSU)
            tse.text = ts
        token = UT(u, p, use_digest=dig, nonce=nonce, created=created, timestamp_token=tse, zulu_timestamp=zulu, hash_password=hashpw)
        res.case(key=(u, repr(p), dig, nonce, repr(created), zulu, hashpw, shape_name, ts), nontrivial=p is not None)
        res.count("mode:" + ("digest" if dig else "text"))
        res.count("header:" + shape_name)
        one_apply(z, token, cfg, shape_name, res, seen, pending)
    # every header shape with the two main modes
    for shape_name in shapes:
        for dig in (False, True):
            cfg = dict(username="scott", password="secret", password_digest=None, use_digest=dig, nonce=None, created=None,
                       zulu_timestamp=True, hash_password=None, timestamp=None)
            res.case(key=("shape", shape_name, dig))
            one_apply(z, UT("scott", "secret", use_digest=dig, zulu_timestamp=True), cfg, shape_name, res, seen, pending)
            res.case(key=("shape-embedded", shape_name, dig))
            res.count("body:embedded-envelope")
            one_apply(z, UT("scott", "secret", use_digest=dig, zulu_timestamp=True), cfg, shape_name, res, seen, pending,
                      dict(embedded_envelope=True))
    # prepared digest
    for shape_name in ("no-header", "security-placeholder"):
        cfg = dict(username="scott", password=None, password_digest="cHJlcGFyZWQ=", use_digest=True, nonce="n1", created=None,
                   zulu_timestamp=None, hash_password=None, timestamp=None)
        res.case(key=("prepared", shape_name))
        one_apply(z, UT("scott", password_digest="cHJlcGFyZWQ=", use_digest=True, nonce="n1"), cfg, shape_name, res, seen, pending)
    # repeated application of one token object over several requests (fresh nonce each time, also with a fixed
    # `created`, and after the password was changed on the object)
    for created in (None, datetime.datetime(2024, 1, 1, 12, 0, 0)):
        for hashpw in (None, True):
            token = UT("scott", "first", use_digest=True, created=created, hash_password=hashpw)
            cfg = dict(username="scott", password="first", password_digest=None, use_digest=True, nonce=None, created=created,
                       zulu_timestamp=None, hash_password=hashpw, timestamp=None)
            for i in range(ctx.n(6, 40)):
                if i == 3:
                    token.password = "second"
                    cfg = dict(cfg, password="second")
                res.case(key=("repeat", repr(created), hashpw, i))
                res.count("repeated-application")
                one_apply(z, token, cfg, shapes[i % len(shapes)], res, seen, pending, dict(request_index=i))
    if ctx.model and pending:
        outs = ctx.model.run([p[0] for p in pending])
        for (mop, hdr, case), mo in zip(pending, outs):
            if "err" in mo or mo["ok"] != hdr:
                res.disagreements.append(dict(relation="Wsse.apply (Lean SHA-1) vs UsernameToken.apply", case=case, model=mo, impl=hdr))
    res.extra["digests_reverified_by_hashlib_and_lean"] = len([p for p in pending if p[0]["config"]["use_digest"]])
    res.extra["distinct_random_nonces"] = len(seen)
    if pending:
        res.sample(dict(case=pending[len(pending) // 2][2], header_after=pending[len(pending) // 2][1]))
    res.programs = res.evaluations
    res.rule = ("grid: 3 usernames x 5 passwords (ascii, unicode, empty, bytes, None) x digest/text x nonce (None, '', ascii, unicode) x "
                "created (None, leap-day with microseconds, epoch-like) x zulu x hash_password, header shapes rotated over 9 pre-existing "
                "Header/Security/UsernameToken layouts (incl. childless, attribute-only and whitespace-only Security), Timestamp on every "
                "5th; text-mode cases with digest-only options sampled 1/7; every shape x mode, again with a complete SOAP envelope (own Header / Security) embedded in the Body; the clock read by zeep.wsse.utils advances 0.4 s on every read; prepared digest; one token object applied to "
                "many requests with the password changed midway. distinct = distinct configuration x shape")
    return res


def search(ctx):
    return run(ctx)


def replay(ctx, payload):
    r = run(ctx)
    case = payload.get("case", payload)
    bad = [f for f in r.failures if f["case"].get("config") == case.get("config") and f["case"].get("header") == case.get("header")
           and f["case"].get("embedded_envelope") == case.get("embedded_envelope")]
    return (not bad), "rerun: %d matching failures" % len(bad)


def replay_finding(ctx, finding):
    return False
