"""C17 — WS-Addressing headers: tie between lean/ZeepModel/Soap/Wsa.lean and zeep.wsa / SoapBinding._create."""
import io
import itertools
import re

from lxml import etree

from harness.core import Result

LEAN_MODULES = ["ZeepProofs.C17"]
NS = "Zeep.Wsa."
THEOREMS = [NS + t for t in ("c17_exactly_once", "c17_values", "c17_other_headers_kept", "c17_none_without_addressing", "c17_fresh")]
LEVEL = "proof"
MANIFEST = dict(
    engine="E: lean/ZeepModel/Soap/Wsa.lean",
    technique="Lean 4 theorems about the header-list transformer (exactly-once by counting, values, prefix preservation, freshness from an injective id source over any call history) + differential tie on generated WSDLs x plugin configurations x caller headers x call sequences",
    text="c17_exactly_once / c17_values / c17_other_headers_kept / c17_none_without_addressing hold for every configuration and caller header list of the model; c17_fresh lifts injectivity of the id source to pairwise distinct MessageIDs over any history. Tied by capturing envelopes of call sequences on real clients (action via wsam/wsaw/none on input and/or output/fault in either order, soapAction present/empty, plugin absent/present/override, two ports and create_service addresses, caller headers) and comparing header entries with the model and with the statement directly.",
    note="Trusted: uuid.uuid4 never repeats (freshness is proved from injectivity of the id source; uniqueness over the run is also checked). An installed plugin with neither declared action nor soapAction attribute raises TypeError (loud; no value is defined by the property) and is not judged.",
    design_ref="DESIGN.md section 6, C17",
)
TRUSTED = ["uuid.uuid4 as an injective id source"]
ASSUMPTIONS = ["caller-supplied headers contain no wsa:* entries of their own"]

WSA = "http://www.w3.org/2005/08/addressing"
ENV = "http://schemas.xmlsoap.org/soap/envelope/"
UUID_RE = re.compile(r"^urn:uuid:[0-9a-f]{8}-[0-9a-f]{4}-[0-9a-f]{4}-[0-9a-f]{4}-[0-9a-f]{12}$")


def wsdl(ops):
    """ops: list of dict(name, in_action=(kind,value)|None, out_action, fault_action, order, soap_action)"""
    pts, bops = "", ""
    for o in ops:
        def attr(a):
            if not a:
                return ""
            kind, val = a
            return ' %s:Action="%s"' % (kind, val)
        i = '<input message="tns:mi"%s/>' % attr(o.get("in_action"))
        out = '<output message="tns:mo"%s/>' % attr(o.get("out_action"))
        f = '<fault name="f" message="tns:mf"%s/>' % attr(o.get("fault_action")) if o.get("fault") else ""
        seq = {"in-first": i + out + f, "out-first": out + i + f, "fault-first": f + i + out if f else i + out}[o.get("order", "in-first")]
        pts += '<operation name="%s">%s</operation>' % (o["name"], seq)
        sa = "" if o["soap_action"] is None else ' soapAction="%s"' % o["soap_action"]
        bops += ('<operation name="%s"><soap:operation%s/><input><soap:body use="literal"/></input><output><soap:body use="literal"/></output></operation>'
                 % (o["name"], sa))
    return """<?xml version="1.0"?>
<definitions xmlns="http://schemas.xmlsoap.org/wsdl/" xmlns:soap="http://schemas.xmlsoap.org/wsdl/soap/"
  xmlns:wsam="http://www.w3.org/2007/05/addressing/metadata" xmlns:wsaw="http://www.w3.org/2006/05/addressing/wsdl"
  xmlns:xsd="http://www.w3.org/2001/XMLSchema" xmlns:tns="urn:t" targetNamespace="urn:t">
  <types><xsd:schema targetNamespace="urn:t" elementFormDefault="qualified">
      <xsd:element name="in" type="xsd:string"/><xsd:element name="out" type="xsd:string"/><xsd:element name="flt" type="xsd:string"/></xsd:schema></types>
  <message name="mi"><part name="p" element="tns:in"/></message>
  <message name="mo"><part name="p" element="tns:out"/></message>
  <message name="mf"><part name="p" element="tns:flt"/></message>
  <portType name="pt">%s</portType>
  <binding name="b" type="tns:pt"><soap:binding style="document" transport="http://schemas.xmlsoap.org/soap/http"/>%s</binding>
  <service name="svc"><port name="pa" binding="tns:b"><soap:address location="http://a.example/svc"/></port>
    <port name="pb" binding="tns:b"><soap:address location="http://b.example/svc"/></port></service>
</definitions>""" % (pts, bops)


def _zeep():
    import zeep
    import zeep.wsa
    import zeep.transports
    return zeep


def make_client(ops, plugin_cfg):
    z = _zeep()
    import requests
    captured = []

    class T(z.transports.Transport):
        def post(self, address, message, headers):
            captured.append((address, etree.fromstring(message), dict(headers)))
            r = requests.Response()
            r.status_code = 200
            r.headers["Content-Type"] = "text/xml"
            r.encoding = "utf-8"
            r._content = ('<e:Envelope xmlns:e="%s"><e:Body><out xmlns="urn:t">r</out></e:Body></e:Envelope>' % ENV).encode()
            return r
    plugins = []
    if plugin_cfg["installed"]:
        cls = z.wsa.WsAddressingPlugin
        if plugin_cfg.get("subclass"):
            # an application's own flavour of the plugin (e.g. one that also logs): still *the* addressing plugin
            class LoggingWsa(z.wsa.WsAddressingPlugin):
                def ingress(self, envelope, http_headers, operation):
                    return envelope, http_headers
            cls = LoggingWsa
        plugins.append(cls(address_url=plugin_cfg.get("override")))
    c = z.Client(io.BytesIO(wsdl(ops).encode()), transport=T(), plugins=plugins)
    return c, captured


def header_entries(env):
    h = env.find("{%s}Header" % ENV)
    out = []
    if h is None:
        return out
    for c in h:
        q = etree.QName(c.tag)
        name = ("wsa:" + q.localname) if q.namespace == WSA else "{%s}%s" % (q.namespace, q.localname)
        out.append([name, c.text or ""])
    return out


MANAGED = ("wsa:Action", "wsa:MessageID", "wsa:To")


def fail_reply_to(env, k):
    """the caller's wsa:ReplyTo must still carry its Address child"""
    h = env.find("{%s}Header" % ENV)
    r = None if h is None else h.find("{%s}ReplyTo" % WSA)
    return r is None or r.findtext("{%s}Address" % WSA) != "http://reply.example/r%d" % k


OP_SHAPES = []
for in_a, out_a, fault_a, order, sa in itertools.product(
        (None, ("wsam", "urn:in:m"), ("wsaw", "urn:in:w")), (None, ("wsam", "urn:out")), (None, ("wsaw", "urn:fault")),
        ("in-first", "out-first", "fault-first"), ("urn:soapaction", "", None)):
    if order == "fault-first" and not fault_a:
        continue
    OP_SHAPES.append(dict(in_action=in_a, out_action=out_a, fault_action=fault_a, fault=bool(fault_a), order=order, soap_action=sa))


def run(ctx):
    res = Result()
    import logging
    logging.getLogger("zeep").setLevel(logging.CRITICAL)
    rng = ctx.rng
    z = _zeep()
    all_ids = []
    pending = []   # (model op, observed entries, case)
    shapes = OP_SHAPES if ctx.tier == "thorough" or ctx.budget > 1 else OP_SHAPES
    plugin_cfgs = [dict(installed=0), dict(installed=1), dict(installed=1, override="http://override.example/x"),
                   dict(installed=1, subclass=1), dict(installed=1, subclass=1, override="http://override.example/y")]
    for si, shape in enumerate(shapes):
        ops = [dict(shape, name="op1"), dict(OP_SHAPES[(si * 7 + 3) % len(OP_SHAPES)], name="op2")]
        for pc in plugin_cfgs:
            client, captured = make_client(ops, pc)
            # a sequence of calls through different ports / created services, different operations, caller headers
            svc_a = client.bind("svc", "pa")
            svc_b = client.bind("svc", "pb")
            svc_c = client.create_service("{urn:t}b", "http://c.example/created")
            seq = [(svc_a, "http://a.example/svc", "op1"), (svc_b, "http://b.example/svc", "op1"), (svc_a, "http://a.example/svc", "op2"),
                   (svc_c, "http://c.example/created", "op1"), (svc_a, "http://a.example/svc", "op1")]
            for k, (svc, addr, opname) in enumerate(seq):
                o = ops[0] if opname == "op1" else ops[1]
                hdr_form = (k + si) % 4
                caller = []
                kwargs = {}
                if hdr_form == 1:
                    e = etree.Element("{urn:custom}Token")
                    e.text = "tok%d" % k
                    kwargs["_soapheaders"] = [e]
                    caller = [["{urn:custom}Token", "tok%d" % k]]
                elif hdr_form == 2:
                    e1 = etree.Element("{urn:custom}A")
                    e1.text = "a"
                    e2 = etree.Element("{urn:other}B")
                    e2.text = ""
                    kwargs["_soapheaders"] = [e1, e2]
                    caller = [["{urn:custom}A", "a"], ["{urn:other}B", ""]]
                elif hdr_form == 3:
                    # addressing properties the caller sets itself (reply routing, correlation): other entries of the header
                    e1 = etree.Element("{%s}ReplyTo" % WSA)
                    etree.SubElement(e1, "{%s}Address" % WSA).text = "http://reply.example/r%d" % k
                    e2 = etree.Element("{%s}RelatesTo" % WSA)
                    e2.text = "urn:uuid:rel%d" % k
                    e3 = etree.Element("{urn:custom}A")
                    e3.text = "a3"
                    kwargs["_soapheaders"] = [e1, e2, e3]
                    caller = [["wsa:ReplyTo", ""], ["wsa:RelatesTo", "urn:uuid:rel%d" % k], ["{urn:custom}A", "a3"]]
                del captured[:]
                declared = o["in_action"][1] if o["in_action"] else None
                applies = declared is not None or pc["installed"] == 1
                case = dict(op_shape={k2: v for k2, v in o.items()}, plugin=pc, address=addr, call_index=k, caller_headers=caller)
                undefined = pc["installed"] == 1 and declared is None and o["soap_action"] is None
                try:
                    getattr(svc, opname)("payload%d" % k, **kwargs)
                except TypeError as e:
                    if undefined:
                        res.count("undefined-action(TypeError)")
                        res.case(key=("undef", si, k, str(pc)), nontrivial=False)
                        continue
                    res.failures.append(dict(what="call raised TypeError: %s" % e, case=case))
                    continue
                except Exception as e:  # noqa
                    res.failures.append(dict(what="call raised %s: %s" % (type(e).__name__, e), case=case))
                    continue
                address, env, http_headers = captured[0]
                entries = header_entries(env)
                res.case(key=(str(o), str(pc), addr, k, str(caller)), nontrivial=applies or bool(caller))
                res.count("applies" if applies else "no-addressing")
                res.count("plugin:%s%s" % ("override" if pc.get("override") else pc["installed"], "-subclass" if pc.get("subclass") else ""))
                res.count("declared:" + (o["in_action"][0] if o["in_action"] else "none"))
                # ---- the statement, directly
                wsa = [e for e in entries if e[0] in MANAGED]
                others = [e for e in entries if e[0] not in MANAGED]
                body = env.find("{%s}Body" % ENV)
                fail = None
                if others != caller:
                    fail = "caller header entries changed: %r vs %r" % (others, caller)
                elif hdr_form == 3 and fail_reply_to(env, k):
                    fail = "caller-supplied wsa:ReplyTo lost its Address"
                elif body is None or len(body) != 1 or body[0].text != "payload%d" % k:
                    fail = "Body affected"
                elif not applies:
                    if wsa:
                        fail = "operation without addressing carries %r" % wsa
                else:
                    names = sorted(e[0] for e in wsa)
                    if names != ["wsa:Action", "wsa:MessageID", "wsa:To"]:
                        fail = "addressing entries %r, expected exactly one Action, MessageID and To" % names
                    else:
                        d = dict((e[0], e[1]) for e in wsa)
                        exp_action = declared if declared is not None else (o["soap_action"] or "")
                        exp_to = pc.get("override") or addr if pc["installed"] else addr
                        if d["wsa:Action"] != exp_action:
                            fail = "wsa:Action %r, expected %r" % (d["wsa:Action"], exp_action)
                        elif d["wsa:To"] != exp_to:
                            fail = "wsa:To %r, expected %r" % (d["wsa:To"], exp_to)
                        elif not UUID_RE.match(d["wsa:MessageID"]):
                            fail = "MessageID %r is not a well-formed urn:uuid" % d["wsa:MessageID"]
                        elif d["wsa:MessageID"] in all_ids:
                            fail = "MessageID %r reused" % d["wsa:MessageID"]
                        all_ids.append(d["wsa:MessageID"])
                if fail:
                    res.failures.append(dict(what=fail, case=case, entries=entries))
                    continue
                ids = [e[1][len("urn:uuid:"):] for e in wsa if e[0] == "wsa:MessageID"] or ["x"]
                pending.append(({"op": "wsa.request", "declared": declared, "soap_action": o["soap_action"] or "",
                                 "installed": pc["installed"], "override": pc.get("override"), "port_addr": addr,
                                 "ids": ids, "headers": caller}, entries, case))
    if ctx.model and pending:
        outs = ctx.model.run([p[0] for p in pending])
        for (mop, entries, case), mo in zip(pending, outs):
            if "err" in mo or mo["ok"] != entries:
                res.disagreements.append(dict(relation="Wsa.request vs captured header entries", case=case, model=mo, impl=entries))
    res.sample(dict(op=OP_SHAPES[40], plugin=plugin_cfgs[2], note="sequence of 5 calls through ports pa, pb, a created service"))
    res.extra["message_ids_seen"] = len(all_ids)
    res.extra["message_ids_distinct"] = len(set(all_ids))
    res.programs = len(shapes) * len(plugin_cfgs)
    res.exhaustive = True
    res.rule = ("operation shapes: input action {none, wsam, wsaw} x output action on/off x fault action on/off x child order "
                "{input first, output first, fault first} x soapAction {value, empty, absent}; x plugin {absent, present, override address, a subclass of the plugin without / with override}; "
                "each client runs 5 calls over two ports sharing the binding, a created service and a second operation, caller headers in "
                "four forms (none, one custom entry, two entries, caller-set wsa:ReplyTo / wsa:RelatesTo beside a custom entry). distinct = distinct (operation shape, plugin, address, position, caller headers)")
    return res


def search(ctx):
    return run(ctx)


def replay(ctx, payload):
    r = run(ctx)
    case = payload.get("case", payload)
    bad = [f for f in r.failures if f["case"].get("op_shape") == case.get("op_shape") and f["case"].get("plugin") == case.get("plugin")]
    return (not bad), "rerun: %d matching failures" % len(bad)


def replay_finding(ctx, finding):
    return False
