"""C13 — settings override blocks: tie between lean/ZeepModel/Settings.lean and zeep.settings."""
import itertools
import queue
import sys
import threading

from harness.core import Result, corpus_cases

LEAN_MODULES = ["ZeepProofs.C13"]
NS = "Zeep.Settings."
THEOREMS = [NS + t for t in (
    "c13_refines", "c13_thread_local", "c13_restores", "c13_restores_stack", "c13_inside",
    "c13_assign_after", "c13_outermost_block_leaves_nothing", "c13_transport_restores",
    "c13_all_options",
)]
LEVEL = "proof"
THOROUGH_SEEDS = 1          # the thorough tier of this check is already long: one further seed
MANIFEST = dict(
    engine="S: lean/ZeepModel/Settings.lean",
    technique="Lean 4 refinement proof (overlay+saved dicts refine a per-thread frame stack, induction over arbitrary interleaved histories) + exhaustive differential tie to zeep.settings on real threads",
    text="Theorems c13_refines / c13_restores / c13_inside / c13_thread_local / c13_assign_after / c13_transport_restores hold for every history, depth, value combination and interleaving of the model; the model is tied to the code by running all well-nested histories up to a length bound and two-thread interleavings (op- and source-line granularity) on the real Settings / Transport objects.",
    note="Trusted: Lean kernel + propext/Quot.sound/Classical.choice; threading.local and contextmanager semantics of CPython; the harness scheduler. Preemption points other than source lines of Settings.__call__ are covered by the theorem (every interleaving of primitive steps), not by the tie.",
    design_ref="DESIGN.md section 6, C13",
)
TRUSTED = [
    "threading.local gives each thread its own attribute namespace (CPython)",
    "contextlib.contextmanager runs the generator's finally on normal and exceptional exit",
    "sys.settrace line events as the step granularity of the two-thread schedules",
]
ASSUMPTIONS = [
    "theorems are about the Lean model (thread-local overlay + saved dicts); the model is tied to "
    "zeep.settings.Settings by running both on the same histories (exhaustive up to the stated bound)",
    "threads are scheduled lock-step by the harness (at op granularity exhaustively, at source-line "
    "granularity inside Settings.__call__ by sampling); other preemption points are covered by the theorem only",
]


def _zeep():
    import zeep.settings
    import zeep.transports
    return zeep.settings, zeep.transports


# ----------------------------------------------------------------------------- real execution

class Worker(threading.Thread):
    """Executes ops on request; optionally pauses at every source line of Settings.__call__."""

    def __init__(self, main_sem):
        super().__init__(daemon=True)
        self.q = queue.Queue()
        self.sem = threading.Semaphore(0)
        self.main_sem = main_sem
        self.fine = False
        self.busy = False
        self.result = None
        self.code = None
        self.start()

    def tracer(self, frame, event, arg):
        if self.code is not None and frame.f_code in self.code:
            return self.local
        return None

    def local(self, frame, event, arg):
        if event == "line" and self.fine:
            # pause: hand control to the scheduler
            self.main_sem.release()
            self.sem.acquire()
        return self.local

    def run(self):
        while True:
            fn = self.q.get()
            if fn is None:
                return
            self.sem.acquire()
            if self.fine:
                sys.settrace(self.tracer)
            try:
                self.result = ("ok", fn())
            except BaseException as e:  # noqa
                self.result = ("exc", type(e).__name__ + ": " + str(e))
            finally:
                sys.settrace(None)
            self.busy = False
            self.main_sem.release()

    # called by main
    def submit(self, fn):
        self.busy = True
        self.result = None
        self.q.put(fn)

    def step(self):
        """let the worker run until its next pause or the end of its op"""
        self.sem.release()
        self.main_sem.acquire()
        return not self.busy


class Pool:
    def __init__(self, n=2):
        self.main_sem = threading.Semaphore(0)
        self.workers = [Worker(self.main_sem) for _ in range(n)]

    def close(self):
        for w in self.workers:
            w.q.put(None)


# model values are integers; the real Settings object gets these Python values (None, False/0 and
# True/1 are equal-but-not-identical pairs: a restore that compares with == or tests truthiness fails)
PYVAL = {0: 0, 1: 1, 2: None, 3: False, 4: True, 5: ""}
VPAIRS = [(0, 1), (2, 1), (0, 2), (3, 0), (4, 1), (2, 3), (5, 2), (1, 4)]
BASES = ["ints", 2, 0, 1, 3]


def py(v):
    return PYVAL.get(v, v)


def code(x):
    for k, v in PYVAL.items():
        if type(v) is type(x) and v == x:
            return k
    return x


def settings_codes(zs):
    """code objects of every function defined in zeep/settings.py (methods of Settings incl. helpers, wrapped generators):
    the line-level scheduler may switch threads at any source line of any of them"""
    import types
    out = set()
    fn = zs.__file__

    def add(f):
        f = getattr(f, "__wrapped__", f)
        c = getattr(f, "__code__", None)
        if isinstance(c, types.CodeType) and c.co_filename == fn:
            out.add(c)
            for k in c.co_consts:
                if isinstance(k, types.CodeType):
                    out.add(k)
    for v in list(vars(zs).values()) + list(vars(zs.Settings).values()):
        add(v)
        if isinstance(v, property):
            add(v.fget)
    return out


class RealRun:
    """one Settings object driven by the case's threads"""

    def __init__(self, names, base, nthreads):
        zs, _ = _zeep()
        self.names = names
        self.s = zs.Settings(**{n: py(b) for n, b in zip(names, base)})
        self.cms = [[] for _ in range(nthreads)]
        self.made = {}

    def opfn(self, t, op):
        s, names, cms = self.s, self.names, self.cms[t]
        kind = op[0]
        made = self.made
        if kind == "make":          # build the context manager without entering it: no effect on any read
            opts = {names[int(k)]: py(v) for k, v in op[2]}

            def f():
                made[op[1]] = s(**opts)
            return f
        if kind == "enterm":        # enter a context manager built earlier (possibly by the other thread)
            def f():
                cm = made.pop(op[1])
                cm.__enter__()
                cms.append(cm)
            return f
        if kind == "enterbad":      # valid options followed by an unknown one: AttributeError, nothing overridden
            opts = {names[int(k)]: py(v) for k, v in op[1]}
            opts["no_such_option_"] = 1

            def f():
                cm = s(**opts)
                try:
                    cm.__enter__()
                except AttributeError:
                    return
                cms.append(cm)
                raise AssertionError("a settings block with an unknown option was entered")
            return f
        if kind == "enter":
            opts = {names[int(k)]: py(v) for k, v in op[1]}

            def f():
                cm = s(**opts)
                cm.__enter__()
                cms.append(cm)
            return f
        if kind == "exit":
            def f():
                cm = cms.pop()
                cm.__exit__(None, None, None)
            return f
        if kind == "exitx":
            def f():
                cm = cms.pop()
                e = ValueError("boom")
                try:
                    r = cm.__exit__(ValueError, e, None)
                except ValueError:
                    r = False
                if r:
                    raise AssertionError("exception swallowed by the settings block")
            return f
        if kind == "assign":
            return lambda: setattr(s, names[op[1]], py(op[2]))
        if kind == "read":
            return lambda: code(getattr(s, names[op[1]]))
        raise ValueError(kind)


def events_of(t, op, open_blocks):
    """primitive model events of one op of thread t (open_blocks: list of option-count per open block)"""
    kind = op[0]
    if kind == "make":
        return []
    if kind == "enterbad":     # the valid options are applied, the unknown one raises, the applied ones are rolled back
        n = len(op[1])
        return [[t, "push"]] + [[t, "set", int(k), v] for k, v in op[1]] + [[t, "restore"]] * n + [[t, "pop"]]
    if kind == "enterm":
        open_blocks.append(len(op[2]))
        return [[t, "push"]] + [[t, "set", int(k), v] for k, v in op[2]]
    if kind == "enter":
        open_blocks.append(len(op[1]))
        return [[t, "push"]] + [[t, "set", int(k), v] for k, v in op[1]]
    if kind in ("exit", "exitx"):
        n = open_blocks.pop()
        return [[t, "restore"]] * n + [[t, "pop"]]
    if kind == "assign":
        return [[t, "assign", op[1], op[2]]]
    if kind == "read":
        return [[t, "read", op[1]]]
    raise ValueError(kind)


def spec_reads(base, linear):
    """the property itself, as a reference: per-thread stack of frames over a shared base"""
    base = list(base)
    stacks = {}
    out = []
    for t, op in linear:
        st = stacks.setdefault(t, [])
        kind = op[0]
        if kind == "enter":
            st.append({int(k): v for k, v in op[1]})
        elif kind == "enterm":
            st.append({int(k): v for k, v in op[2]})
        elif kind in ("make", "enterbad"):
            pass
        elif kind in ("exit", "exitx"):
            st.pop()
        elif kind == "assign":
            base[op[1]] = op[2]
        elif kind == "read":
            v = base[op[1]]
            for fr in st:
                if op[1] in fr:
                    v = fr[op[1]]
            out.append(v)
    return out


def linearize(case):
    """the sequence (thread, op) in schedule order, with reads of the tracked options after each op"""
    progs = case["progs"]
    idx = [0] * len(progs)
    lin = []
    tracked = case["tracked"]
    for t in case["schedule"]:
        op = progs[t][idx[t]]
        idx[t] += 1
        lin.append((t, op))
        if op[0] != "read":
            for k in tracked:
                lin.append((t, ["read", k]))
    for t in range(len(progs)):
        for k in tracked:
            lin.append((t, ["read", k]))
    return lin


def run_real(pool, names, case):
    nthreads = len(case["progs"])
    rr = RealRun(names, case["base"], nthreads)
    fine = case.get("fine")
    reads = []
    errors = []
    lin = linearize(case)
    if not fine:
        for t, op in lin:
            w = pool.workers[t]
            w.fine = False
            w.code = None
            w.submit(rr.opfn(t, op))
            w.step()
            kind, val = w.result
            if kind == "exc":
                errors.append(val)
            elif op[0] == "read":
                reads.append(val)
        return reads, errors
    # fine-grained: ops of different threads overlap; the case carries, for each linear position, how
    # many line-steps the *other* thread's next op is advanced before this op completes.
    zs, _ = _zeep()
    code = settings_codes(zs)
    pending = {}      # thread -> (op) in flight
    rng_steps = case["fine_steps"]
    i = 0
    order = []        # completion order (thread, op, value)
    queue_per_thread = {t: [] for t in range(nthreads)}
    for t, op in lin:
        queue_per_thread[t].append(op)
    pos = {t: 0 for t in range(nthreads)}
    # schedule of thread picks: a list of thread ids, one per line-step; falls back to round robin
    picks = list(case["fine_picks"])
    pi = 0
    active = {}
    done_count = 0
    total = len(lin)
    guard = 0
    while done_count < total:
        guard += 1
        if guard > 100000:
            raise RuntimeError("fine scheduler stuck")
        t = picks[pi % len(picks)] if picks else 0
        pi += 1
        if pos[t] >= len(queue_per_thread[t]) and t not in active:
            t = next(u for u in range(nthreads) if pos[u] < len(queue_per_thread[u]) or u in active)
        w = pool.workers[t]
        if t not in active:
            op = queue_per_thread[t][pos[t]]
            pos[t] += 1
            w.fine = op[0] in ("enter", "enterm", "enterbad", "exit", "exitx")
            w.code = code
            w.submit(rr.opfn(t, op))
            active[t] = op
        finished = w.step()
        if finished:
            op = active.pop(t)
            kind, val = w.result
            done_count += 1
            order.append((t, op))
            if kind == "exc":
                errors.append(val)
            elif op[0] == "read":
                reads.append(val)
    return reads, errors, order


# ----------------------------------------------------------------------------- generation

def alphabet(tracked):
    a, b = tracked
    ops = [
        ["enter", [[a, 0]]], ["enter", [[a, 1]]], ["enter", [[b, 1]]],
        ["enter", [[a, 0], [b, 1]]], ["enter", [[b, 0], [a, 1]]],
        ["exit"], ["exitx"],
        ["assign", a, 0], ["assign", a, 1], ["assign", b, 0],
    ]
    return ops


def histories(tracked, maxlen):
    """all well-nested op sequences of one thread up to maxlen (exits only when a block is open)"""
    ops = alphabet(tracked)

    def rec(prefix, depth):
        yield list(prefix)
        if len(prefix) == maxlen:
            return
        for op in ops:
            if op[0] in ("exit", "exitx"):
                if depth == 0:
                    continue
                prefix.append(op)
                yield from rec(prefix, depth - 1)
                prefix.pop()
            elif op[0] == "enter":
                prefix.append(op)
                yield from rec(prefix, depth + 1)
                prefix.pop()
            else:
                prefix.append(op)
                yield from rec(prefix, depth)
                prefix.pop()
    yield from rec([], 0)


def rename(h, ren, vren):
    out = []
    for op in h:
        if op[0] == "enter":
            out.append(["enter", [[ren[k], vren[v]] for k, v in op[1]]])
        elif op[0] == "assign":
            out.append(["assign", ren[op[1]], vren[op[2]]])
        else:
            out.append(list(op))
    return out


def make_base(n, kind):
    return [10 + i for i in range(n)] if kind == "ints" else [kind] * n


def interleavings(n0, n1):
    for pos in itertools.combinations(range(n0 + n1), n0):
        s = [1] * (n0 + n1)
        for p in pos:
            s[p] = 0
        yield s


def model_ops_for(case):
    evs = []
    opens = {}
    for t, op in linearize(case):
        evs += events_of(t, op, opens.setdefault(t, []))
    return {"op": "settings.run", "base": case["base"], "events": evs}


def nontrivial(case):
    kinds = set()
    depth = 0
    maxd = 0
    for p in case["progs"]:
        d = 0
        for op in p:
            kinds.add(op[0])
            if op[0] in ("enter", "enterm"):
                d += 1
                maxd = max(maxd, d)
            elif op[0] in ("exit", "exitx"):
                d -= 1
    return ("enter" in kinds or "enterm" in kinds or "enterbad" in kinds) and len(kinds) >= 2


def split_enter_cases(ctx, n, short):
    rng = ctx.rng
    out = []
    hs = [h for h in short if any(o[0] == "enter" for o in h)]
    picks = hs if ctx.tier == "thorough" or ctx.budget > 1 else [hs[i] for i in range(0, len(hs), max(1, len(hs) // 120))]
    for hi, h in enumerate(picks):
        a, b = rng.sample(range(n), 2)
        vp = VPAIRS[hi % len(VPAIRS)]
        bk = BASES[hi % len(BASES)]
        ren, vren = {0: a, 1: b}, {0: vp[0], 1: vp[1]}
        hr = rename(h, ren, vren)
        # (i) same thread: make, then enter
        prog, slot = [], 0
        for op in hr:
            if op[0] == "enter":
                prog += [["make", slot, op[1]], ["enterm", slot, op[1]]]
                slot += 1
            else:
                prog.append(op)
        prog.append(["make", slot, [[a, vp[1]]]])          # built and dropped
        out.append(dict(base=make_base(n, bk), progs=[prog], schedule=[0] * len(prog), tracked=[a, b]))
        # (ii) built by thread 1, entered by thread 0
        p0, p1, sched, slot = [], [], [], 0
        for op in hr:
            if op[0] == "enter":
                p1.append(["make", slot, op[1]])
                sched.append(1)
                p0.append(["enterm", slot, op[1]])
                sched.append(0)
                slot += 1
            else:
                p0.append(op)
                sched.append(0)
        out.append(dict(base=make_base(n, bk), progs=[p0, p1], schedule=sched, tracked=[a, b]))
        # (iii) a failing entry (unknown option after valid ones) before, inside and after the blocks
        for pos in sorted({0, len(hr) // 2, len(hr)}):
            prog = hr[:pos] + [["enterbad", [[a, vp[1]], [b, vp[0]]]]] + hr[pos:]
            out.append(dict(base=make_base(n, bk), progs=[prog], schedule=[0] * len(prog), tracked=[a, b]))
    return out


def check_cases(ctx, res, names, cases, pool):
    """run a batch of cases on implementation, model and the reference spec"""
    model_in = [model_ops_for(c) for c in cases]
    model_out = ctx.model.run(model_in) if ctx.model else [None] * len(cases)
    for case, mo in zip(cases, model_out):
        lin = linearize(case)
        if case.get("fine"):
            reads, errors, order = run_real(pool, names, case)
            # fine mode: reads complete in `order`; expected values are computed on the completion order
            exp = spec_reads(case["base"], order)
            mexp = None
        else:
            reads, errors = run_real(pool, names, case)
            exp = spec_reads(case["base"], lin)
            mexp = mo["ok"]["reads"] if mo and "ok" in mo else None
        depth = max((sum(1 for o in p if o[0] in ("enter", "enterm")) for p in case["progs"]), default=0)
        res.case(key=(case["progs"], case["schedule"], case.get("fine_picks")), nontrivial=nontrivial(case))
        res.count("threads=%d" % len(case["progs"]))
        res.count("fine" if case.get("fine") else "coarse")
        res.count("enters<=%d" % depth)
        for p in case["progs"]:
            for op in p:
                res.count("op:" + op[0])
        if errors or reads != exp:
            res.failures.append(dict(
                what="reads observed on zeep.settings.Settings differ from the frame-stack reading"
                if not errors else "settings block raised: " + errors[0],
                case=case, option_names=names, expected=exp, got=reads, errors=errors))
        if mexp is not None and mexp != reads and not (errors or reads != exp):
            res.disagreements.append(dict(relation="Settings.mrun vs zeep.settings.Settings",
                                          case=case, model=mexp, impl=reads))
        elif mo is not None and "err" in mo:
            res.disagreements.append(dict(relation="driver error", case=case, model=mo))
        if case.get("fine") or len(case["progs"]) > 1 or depth >= 2:
            res.sample(dict(case=case, reads=reads), cap=4)


# transport ------------------------------------------------------------------

def thistories(maxlen):
    vals = [None, 1, 2]
    ops = [["enter", v] for v in vals] + [["exit"], ["exitx"]] + [["assign", v] for v in vals]

    def rec(prefix, depth):
        yield list(prefix)
        if len(prefix) == maxlen:
            return
        for op in ops:
            if op[0] in ("exit", "exitx"):
                if depth == 0:
                    continue
                d = depth - 1
            elif op[0] == "enter":
                d = depth + 1
            else:
                d = depth
            prefix.append(op)
            yield from rec(prefix, d)
            prefix.pop()
    yield from rec([], 0)


def run_transport_real(tr, cell, ops):
    tr.operation_timeout = cell
    cms = []
    reads = []
    errors = []
    for op in ops:
        k = op[0]
        try:
            if k == "enter":
                cm = tr.settings(timeout=op[1])
                cm.__enter__()
                cms.append(cm)
            elif k == "exit":
                cms.pop().__exit__(None, None, None)
            elif k == "exitx":
                cm = cms.pop()
                e = ValueError("boom")
                try:
                    r = cm.__exit__(ValueError, e, None)
                except ValueError:
                    r = False
                if r:
                    errors.append("exception swallowed")
            elif k == "assign":
                tr.operation_timeout = op[1]
        except Exception as e:  # noqa
            errors.append(repr(e))
        reads.append(tr.operation_timeout)
    return reads, errors


def spec_transport(cell, ops):
    st = []
    out = []
    for op in ops:
        k = op[0]
        if k == "enter":
            st.append(cell)
            cell = op[1]
        elif k in ("exit", "exitx"):
            cell = st.pop()
        elif k == "assign":
            cell = op[1]
        out.append(cell)
    return out


def transport_cases(ctx, res, maxlen):
    _, zt = _zeep()
    tr = zt.Transport()
    cases = []
    for cell in (None, 7):
        for ops in thistories(maxlen):
            if not ops:
                continue
            cases.append((cell, ops))
    model_in = []
    for cell, ops in cases:
        mops = []
        for op in ops:
            if op[0] == "enter":
                mops.append(["enter", op[1]])
            elif op[0] in ("exit", "exitx"):
                mops.append(["exit"])
            else:
                mops.append(["assign", op[1]])
            mops.append(["read"])
        model_in.append({"op": "transport.run", "cell": cell, "ops": mops})
    mout = ctx.model.run(model_in) if ctx.model else [None] * len(cases)
    for (cell, ops), mo in zip(cases, mout):
        reads, errors = run_transport_real(tr, cell, ops)
        exp = spec_transport(cell, ops)
        res.case(key=("T", cell, ops), nontrivial=any(o[0] == "enter" for o in ops))
        res.count("transport")
        if errors or reads != exp:
            res.failures.append(dict(what="Transport.settings does not restore operation_timeout",
                                     case=dict(kind="transport", cell=cell, ops=ops), expected=exp, got=reads,
                                     errors=errors))
        elif mo is not None and ("err" in mo or mo["ok"]["reads"] != reads):
            res.disagreements.append(dict(relation="Settings.trun vs Transport.settings",
                                          case=dict(kind="transport", cell=cell, ops=ops), model=mo, impl=reads))
    res.sample(dict(kind="transport", cell=cases[-1][0], ops=cases[-1][1]))


# ----------------------------------------------------------------------------- entry points

def option_names(ctx):
    zs, _ = _zeep()
    import attr
    return [f.name for f in attr.fields(zs.Settings) if not f.name.startswith("_")]


def run(ctx):
    res = Result()
    names = option_names(ctx)
    n = len(names)
    pool = Pool(2)
    rng = ctx.rng
    try:
        base = make_base(n, "ints")
        # 0. corpus (minimised past failures) first
        for name, c in corpus_cases("C13"):
            if c.get("kind") == "transport":
                continue
            check_cases(ctx, res, names, [c["case"]], pool)
            res.count("corpus")
        # 1. exhaustive single-thread histories
        L = ctx.n(4, 5)
        if ctx.budget > 1:
            L = 5
        pairs = [(i, (i + 1) % n) for i in range(n)]
        batch = []
        hs = [h for h in histories((0, 1), L) if h]
        for hi, h in enumerate(hs):
            a, b = pairs[hi % len(pairs)]
            # every history runs with plain ints and with one rotating equal-but-not-identical value pair / base
            variants = [((0, 1), "ints"), (VPAIRS[hi % len(VPAIRS)], BASES[(hi // len(VPAIRS)) % len(BASES)])]
            for (v0, v1), bk in variants:
                prog = rename(h, {0: a, 1: b}, {0: v0, 1: v1})
                batch.append(dict(base=make_base(n, bk), progs=[prog], schedule=[0] * len(prog), tracked=[a, b]))
        res.extra["single_thread_histories"] = len(batch)
        res.extra["single_thread_maxlen"] = L
        check_cases(ctx, res, names, batch, pool)
        # 2. two threads, all op-level interleavings of sampled pairs of histories (len <= 3)
        short = [h for h in histories((0, 1), 3) if h]
        npairs = ctx.n(150, 3000)
        batch = []
        for _ in range(npairs):
            h0 = rng.choice(short)
            h1 = rng.choice(short)
            a, b = rng.sample(range(n), 2)
            vp = rng.choice(VPAIRS)
            bk = rng.choice(BASES)
            ren, vren = {0: a, 1: b}, {0: vp[0], 1: vp[1]}
            for sched in interleavings(len(h0), len(h1)):
                batch.append(dict(base=make_base(n, bk), progs=[rename(h0, ren, vren), rename(h1, ren, vren)],
                                  schedule=sched, tracked=[a, b]))
        res.extra["two_thread_runs"] = len(batch)
        check_cases(ctx, res, names, batch, pool)
        # 3. two threads interleaved at source-line granularity inside Settings.__call__
        nfine = ctx.n(150, 3000)
        batch = []
        for _ in range(nfine):
            h0 = rng.choice(short)
            h1 = rng.choice(short)
            a, b = rng.sample(range(n), 2)
            vp = rng.choice(VPAIRS)
            bk = rng.choice(BASES)
            ren, vren = {0: a, 1: b}, {0: vp[0], 1: vp[1]}
            sched = rng.choice(list(interleavings(len(h0), len(h1))))
            picks = [rng.randrange(2) for _ in range(40)]
            batch.append(dict(base=make_base(n, bk), progs=[rename(h0, ren, vren), rename(h1, ren, vren)],
                              schedule=sched, tracked=[a, b], fine=True, fine_picks=picks, fine_steps=[]))
        res.extra["line_granularity_runs"] = len(batch)
        check_cases(ctx, res, names, batch, pool)
        # 3b. building a block is not entering it: every `enter` split into make + enterm (reads in between), a block
        #     built and never entered, a block built by one thread and entered by the other, and entries that fail on
        #     an unknown option after valid ones
        batch = split_enter_cases(ctx, n, short)
        res.extra["split_enter_runs"] = len(batch)
        check_cases(ctx, res, names, batch, pool)
        # 4. Transport.settings
        transport_cases(ctx, res, ctx.n(4, 5))
    finally:
        pool.close()
    res.exhaustive = True
    res.programs = res.evaluations
    res.rule = ("all well-nested single-thread histories over 10 ops (5 enters, exit, exceptional exit, 3 assigns) "
                "up to the stated length, options rotated through the regenerated option table; all op-level "
                "interleavings of sampled pairs of histories (len<=3) in two real threads; sampled line-level "
                "interleavings inside Settings.__call__ (sys.settrace); all Transport.settings histories over 8 ops. "
                "distinct = distinct (programs, schedule); non-trivial = at least one block plus another kind of op")
    return res


def search(ctx):
    return run(ctx)


def replay(ctx, payload):
    case = payload.get("case", payload)
    names = payload.get("option_names") or option_names(ctx)
    if case.get("kind") == "transport":
        _, zt = _zeep()
        reads, errors = run_transport_real(zt.Transport(), case["cell"], case["ops"])
        exp = spec_transport(case["cell"], case["ops"])
        return (reads == exp and not errors), f"expected {exp} got {reads} {errors}"
    pool = Pool(2)
    try:
        out = run_real(pool, names, case)
    finally:
        pool.close()
    reads, errors = out[0], out[1]
    exp = spec_reads(case["base"], out[2] if case.get("fine") else linearize(case))
    return (reads == exp and not errors), f"expected {exp} got {reads} {errors}"


def replay_finding(ctx, finding):
    return False
