"""C09 — WSDL/XSD loading: order and split independence. Tie to lean/ZeepModel/Wsdl/Load.lean."""
import contextlib
import io
import itertools
import os
import re
import signal
from urllib.parse import urlparse, urljoin

from harness.core import Result

LEAN_MODULES = ["ZeepProofs.C09"]
NS = "Zeep.Wsdl."
THEOREMS = [NS + t for t in ("c09_own_order", "c09_lookup_order", "c09_sound", "c09_complete_root", "c09_terminates_on_cycles",
                             "c09_chain_same_namespace", "get_same", "get_sound")]
LEVEL = "proof"
MANIFEST = dict(
    engine="W: lean/ZeepModel/Wsdl/Load.lean",
    technique="Lean 4 model of the transitive definition lookup (own container, depth-first through wsdl:import with the processed-namespace guard); theorems: order independence via permutation-invariant lookups, soundness by induction over the search, totality on cyclic import graphs + differential tie: generated WSDLs x sibling permutations x file cuts (xsd:import / xsd:include / wsdl:import, chains, cycles, relative/absolute locations) over an in-memory transport",
    text="c09_own_order / c09_lookup_order prove that any permutation of sibling declarations (unique names) leaves every resolution unchanged through any import graph; c09_sound proves nothing is invented; the resolver is total, cycles included. Tied by loading generated WSDLs in permuted and split forms and comparing the normalised `python -m zeep` dump, the exposed services / ports / bindings / operations and signatures with the original and with the model.",
    note="Partial: completeness of resolution across chains of imports is not proved (counterexample theorem for same-namespace chains); parse-time lookups inside import cycles (known finding K4) and XSD two-phase resolution are carried by the tie only.",
    design_ref="DESIGN.md section 6, C09",
)
TRUSTED = ["the harness's abstraction of a generated WSDL into declarations (names and references)"]
ASSUMPTIONS = ["names are unique per kind and namespace in generated documents"]

W = "http://schemas.xmlsoap.org/wsdl/"
SOAP = "http://schemas.xmlsoap.org/wsdl/soap/"
XSD = "http://www.w3.org/2001/XMLSchema"

MONEY = '<xsd:complexType name="Money"><xsd:sequence><xsd:element name="amount" type="xsd:decimal"/><xsd:element name="cur" type="xsd:string" minOccurs="0"/></xsd:sequence></xsd:complexType>'
SCHEMA_T_DECLS = [
    '<xsd:complexType name="Order"><xsd:sequence><xsd:element name="id" type="xsd:int"/><xsd:element name="line" type="tns:Line" maxOccurs="unbounded"/><xsd:element ref="tns:note" minOccurs="0"/></xsd:sequence></xsd:complexType>',
    '<xsd:complexType name="Line"><xsd:sequence><xsd:element name="sku" type="tns:Sku"/><xsd:element name="qty" type="xsd:int"/><xsd:group ref="tns:Audit"/></xsd:sequence><xsd:attribute name="pos" type="xsd:int"/><xsd:attributeGroup ref="tns:Meta"/><xsd:attribute ref="tns:lang"/></xsd:complexType>',
    '<xsd:simpleType name="Sku"><xsd:restriction base="xsd:string"><xsd:maxLength value="8"/></xsd:restriction></xsd:simpleType>',
    '<xsd:element name="note" type="xsd:string"/>',
    '<xsd:element name="placeOrder" type="tns:Order"/>',
    '<xsd:element name="placeOrderResponse"><xsd:complexType><xsd:sequence><xsd:element name="ok" type="xsd:boolean"/><xsd:element name="ref" type="u:Ref"/><xsd:element name="total" type="tns:Money"/></xsd:sequence></xsd:complexType></xsd:element>',
    '<xsd:element name="ping" type="xsd:string"/>',
    # declarations that are neither types nor elements: referenced by `ref=` from Line
    '<xsd:group name="Audit"><xsd:sequence><xsd:element name="by" type="xsd:string" minOccurs="0"/></xsd:sequence></xsd:group>',
    '<xsd:attributeGroup name="Meta"><xsd:attribute name="rev" type="xsd:int"/></xsd:attributeGroup>',
    '<xsd:attribute name="lang" type="xsd:string"/>',
    MONEY,
]
N_NONTYPE = 3          # the three declarations before MONEY
SCHEMA_U_DECLS = [
    '<xsd:complexType name="Ref"><xsd:sequence><xsd:element name="code" type="xsd:string"/><xsd:element name="when" type="u:Stamp"/><xsd:element name="fee" type="u:Money" minOccurs="0"/></xsd:sequence></xsd:complexType>',
    '<xsd:simpleType name="Stamp"><xsd:restriction base="xsd:dateTime"/></xsd:simpleType>',
    MONEY,
]
MESSAGES = [
    '<message name="placeOrderIn"><part name="body" element="tns:placeOrder"/></message>',
    '<message name="placeOrderOut"><part name="body" element="tns:placeOrderResponse"/></message>',
    '<message name="pingMsg"><part name="body" element="tns:ping"/></message>',
]
PORTTYPE = ('<portType name="OrderPT"><operation name="placeOrder"><input message="tns:placeOrderIn"/><output message="tns:placeOrderOut"/></operation>'
            '<operation name="ping"><input message="tns:pingMsg"/><output message="tns:pingMsg"/></operation></portType>')
BINDINGS = [
    ('<binding name="B11" type="tns:OrderPT"><soap:binding style="document" transport="http://schemas.xmlsoap.org/soap/http"/>'
     '<operation name="placeOrder"><soap:operation soapAction="po"/><input><soap:body use="literal"/></input><output><soap:body use="literal"/></output></operation>'
     '<operation name="ping"><soap:operation soapAction="pi"/><input><soap:body use="literal"/></input><output><soap:body use="literal"/></output></operation></binding>'),
    ('<binding name="B11b" type="tns:OrderPT"><soap:binding style="document" transport="http://schemas.xmlsoap.org/soap/http"/>'
     '<operation name="ping"><soap:operation soapAction="pi2"/><input><soap:body use="literal"/></input><output><soap:body use="literal"/></output></operation></binding>'),
]
SERVICE = ('<service name="OrderService"><port name="Main" binding="tns:B11"><soap:address location="http://h.example/main"/></port>'
           '<port name="Alt" binding="tns:B11b"><soap:address location="http://h.example/alt"/></port></service>')

DEFS_OPEN = ('<definitions xmlns="%s" xmlns:soap="%s" xmlns:xsd="%s" xmlns:tns="urn:t" xmlns:u="urn:u" targetNamespace="%%s">' % (W, SOAP, XSD))


def schema(tns, decls, pre=""):
    return ('<xsd:schema xmlns:xsd="%s" xmlns:tns="urn:t" xmlns:u="urn:u" targetNamespace="%s" elementFormDefault="qualified">%s%s</xsd:schema>'
            % (XSD, tns, pre, "".join(decls)))


def monolith(order=None, sorder=None, torder=None):
    """one-file WSDL; `order` permutes the top-level children, `sorder` the declarations of schema T,
    `torder` the two schemas inside wsdl:types"""
    t_decls = SCHEMA_T_DECLS if sorder is None else [SCHEMA_T_DECLS[i] for i in sorder]
    schemas = [schema("urn:t", t_decls, '<xsd:import namespace="urn:u"/>'), schema("urn:u", SCHEMA_U_DECLS)]
    if torder:
        schemas = [schemas[i] for i in torder]
    top = ["<types>%s</types>" % "".join(schemas)] + MESSAGES + [PORTTYPE] + BINDINGS + [SERVICE]
    if order is not None:
        top = [top[i] for i in order]
    return {"root.wsdl": (DEFS_OPEN % "urn:t") + "".join(top) + "</definitions>"}


def split(kind, base="http://h.example/w/"):
    """file cuts of the same definitions; returns dict name -> text (root is root.wsdl)"""
    def loc(name, style):
        if style == "dot":
            return "./" + name if "/" not in name else name.split("/")[0] + "/./" + name.split("/", 1)[1]      # non-canonical spelling of the same place
        return name if style == "rel" else base + name
    files = {}
    style = "abs" if kind.endswith("-abs") else ("dot" if kind.endswith("-dot") else "rel")

    def ro(rel, absolute):
        return rel if style == "rel" else ("./" + rel if style == "dot" else absolute)
    k = kind[:-4] if kind.endswith(("-abs", "-dot")) else kind
    if k == "xsd-import-u":
        files["u.xsd"] = schema("urn:u", SCHEMA_U_DECLS)
        types = schema("urn:t", SCHEMA_T_DECLS, '<xsd:import namespace="urn:u" schemaLocation="%s"/>' % loc("u.xsd", style))
        top = ["<types>%s</types>" % types] + MESSAGES + [PORTTYPE] + BINDINGS + [SERVICE]
    elif k == "xsd-include-t":
        files["t2.xsd"] = schema("urn:t", SCHEMA_T_DECLS[:3], '<xsd:import namespace="urn:u"/>')
        types = schema("urn:t", SCHEMA_T_DECLS[3:], '<xsd:import namespace="urn:u"/><xsd:include schemaLocation="%s"/>' % loc("t2.xsd", style)) + schema("urn:u", SCHEMA_U_DECLS)
        top = ["<types>%s</types>" % types] + MESSAGES + [PORTTYPE] + BINDINGS + [SERVICE]
    elif k == "xsd-subdir":
        # root includes sub/t2.xsd, which imports u.xsd and includes t3.xsd *relative to its own directory*
        files["sub/u.xsd"] = schema("urn:u", SCHEMA_U_DECLS)
        files["sub/deep/t3.xsd"] = schema("urn:t", SCHEMA_T_DECLS[3:5])
        files["sub/t2.xsd"] = schema("urn:t", SCHEMA_T_DECLS[:3], '<xsd:import namespace="urn:u" schemaLocation="%s"/><xsd:include schemaLocation="%s"/>'
                                     % (ro("u.xsd", base + "sub/u.xsd"), ro("deep/t3.xsd", base + "sub/deep/t3.xsd")))
        types = schema("urn:t", SCHEMA_T_DECLS[5:], '<xsd:include schemaLocation="%s"/>' % loc("sub/t2.xsd", style))
        top = ["<types>%s</types>" % types] + MESSAGES + [PORTTYPE] + BINDINGS + [SERVICE]
    elif k == "wsdl-subdir":
        files["sub/u.xsd"] = schema("urn:u", SCHEMA_U_DECLS)
        files["sub/abstract.wsdl"] = ((DEFS_OPEN % "urn:t") + "<types>%s</types>" % schema("urn:t", SCHEMA_T_DECLS, '<xsd:import namespace="urn:u" schemaLocation="%s"/>' % ro("u.xsd", base + "sub/u.xsd"))
                                      + "".join(MESSAGES) + PORTTYPE + "</definitions>")
        top = ['<import namespace="urn:t" location="%s"/>' % loc("sub/abstract.wsdl", style)] + BINDINGS + [SERVICE]
    elif k == "xsd-include-cycle":
        files["t2.xsd"] = schema("urn:t", SCHEMA_T_DECLS[:3], '<xsd:import namespace="urn:u"/><xsd:include schemaLocation="%s"/>' % loc("t3.xsd", style))
        files["t3.xsd"] = schema("urn:t", SCHEMA_T_DECLS[3:5], '<xsd:include schemaLocation="%s"/>' % loc("t2.xsd", style))
        types = schema("urn:t", SCHEMA_T_DECLS[5:], '<xsd:import namespace="urn:u"/><xsd:include schemaLocation="%s"/>' % loc("t2.xsd", style)) + schema("urn:u", SCHEMA_U_DECLS)
        top = ["<types>%s</types>" % types] + MESSAGES + [PORTTYPE] + BINDINGS + [SERVICE]
    elif k in ("xsd-nontype-doc-inline", "xsd-nontype-doc-include"):
        # one document of namespace T holds only the group / attributeGroup / global attribute declarations
        nontype = SCHEMA_T_DECLS[-1 - N_NONTYPE:-1]
        rest = SCHEMA_T_DECLS[:-1 - N_NONTYPE] + SCHEMA_T_DECLS[-1:]
        if k.endswith("inline"):
            types = schema("urn:t", nontype) + schema("urn:t", rest, '<xsd:import namespace="urn:u"/>') + schema("urn:u", SCHEMA_U_DECLS)
        else:
            files["tg.xsd"] = schema("urn:t", nontype)
            types = schema("urn:t", rest, '<xsd:import namespace="urn:u"/><xsd:include schemaLocation="%s"/>' % loc("tg.xsd", style)) + schema("urn:u", SCHEMA_U_DECLS)
        top = ["<types>%s</types>" % types] + MESSAGES + [PORTTYPE] + BINDINGS + [SERVICE]
    elif k in ("xsd-chameleon-include", "xsd-chameleon-include-first"):
        # Money lives in a document without targetNamespace (and without a default xmlns) that both namespaces include
        files["common.xsd"] = '<xsd:schema xmlns:xsd="%s">%s</xsd:schema>' % (XSD, MONEY)
        inc = '<xsd:include schemaLocation="%s"/>' % loc("common.xsd", style)
        imp = '<xsd:import namespace="urn:u" schemaLocation="%s"/>' % loc("u.xsd", style)
        files["u.xsd"] = schema("urn:u", SCHEMA_U_DECLS[:-1], inc)
        types = schema("urn:t", SCHEMA_T_DECLS[:-1], (inc + imp) if k.endswith("first") else (imp + inc))
        top = ["<types>%s</types>" % types] + MESSAGES + [PORTTYPE] + BINDINGS + [SERVICE]
    elif k == "xsd-import-cycle":
        files["u.xsd"] = schema("urn:u", SCHEMA_U_DECLS, '<xsd:import namespace="urn:t" schemaLocation="%s"/>' % loc("t.xsd", style))
        files["t.xsd"] = schema("urn:t", SCHEMA_T_DECLS, '<xsd:import namespace="urn:u" schemaLocation="%s"/>' % loc("u.xsd", style))
        types = '<xsd:schema xmlns:xsd="%s"><xsd:import namespace="urn:t" schemaLocation="%s"/></xsd:schema>' % (XSD, loc("t.xsd", style))
        top = ["<types>%s</types>" % types] + MESSAGES + [PORTTYPE] + BINDINGS + [SERVICE]
    else:
        all_types = "<types>%s%s</types>" % (schema("urn:t", SCHEMA_T_DECLS, '<xsd:import namespace="urn:u"/>'), schema("urn:u", SCHEMA_U_DECLS))
        if k == "wsdl-types-split":
            # the root keeps schema T inline; schema U (referenced by T) lives in the wsdl:types of an imported WSDL
            files["udefs.wsdl"] = (DEFS_OPEN % "urn:u") + "<types>%s</types>" % schema("urn:u", SCHEMA_U_DECLS) + "</definitions>"
            top = (['<import namespace="urn:u" location="%s"/>' % loc("udefs.wsdl", style), "<types>%s</types>" % schema("urn:t", SCHEMA_T_DECLS, '<xsd:import namespace="urn:u"/>')]
                   + MESSAGES + [PORTTYPE] + BINDINGS + [SERVICE])
        elif k == "wsdl-import-abstract":
            files["abstract.wsdl"] = (DEFS_OPEN % "urn:t") + all_types + "".join(MESSAGES) + PORTTYPE + "</definitions>"
            top = ['<import namespace="urn:t" location="%s"/>' % loc("abstract.wsdl", style)] + BINDINGS + [SERVICE]
        elif k == "wsdl-chain":
            files["abstract.wsdl"] = (DEFS_OPEN % "urn:t") + all_types + "".join(MESSAGES) + PORTTYPE + "</definitions>"
            files["binding.wsdl"] = (DEFS_OPEN % "urn:t") + '<import namespace="urn:t" location="%s"/>' % loc("abstract.wsdl", style) + "".join(BINDINGS) + "</definitions>"
            top = ['<import namespace="urn:t" location="%s"/>' % loc("binding.wsdl", style), SERVICE]
        elif k == "wsdl-chain-3":
            files["messages.wsdl"] = (DEFS_OPEN % "urn:t") + all_types + "".join(MESSAGES) + "</definitions>"
            files["abstract.wsdl"] = (DEFS_OPEN % "urn:t") + '<import namespace="urn:t" location="%s"/>' % loc("messages.wsdl", style) + PORTTYPE + "</definitions>"
            files["binding.wsdl"] = (DEFS_OPEN % "urn:t") + '<import namespace="urn:t" location="%s"/>' % loc("abstract.wsdl", style) + "".join(BINDINGS) + "</definitions>"
            top = ['<import namespace="urn:t" location="%s"/>' % loc("binding.wsdl", style), SERVICE]
        elif k == "wsdl-two-imports-same-ns":
            files["abstract.wsdl"] = (DEFS_OPEN % "urn:t") + all_types + "".join(MESSAGES) + PORTTYPE + "</definitions>"
            files["b1.wsdl"] = (DEFS_OPEN % "urn:t") + '<import namespace="urn:t" location="%s"/>' % loc("abstract.wsdl", style) + BINDINGS[0] + "</definitions>"
            files["b2.wsdl"] = (DEFS_OPEN % "urn:t") + '<import namespace="urn:t" location="%s"/>' % loc("abstract.wsdl", style) + BINDINGS[1] + "</definitions>"
            top = ['<import namespace="urn:t" location="%s"/>' % loc("b1.wsdl", style), '<import namespace="urn:t" location="%s"/>' % loc("b2.wsdl", style), SERVICE]
        elif k == "wsdl-cycle-aba":
            # root -> abstract -> root ; references follow the direction of the imports
            files["abstract.wsdl"] = (DEFS_OPEN % "urn:t") + '<import namespace="urn:t" location="%s"/>' % loc("root.wsdl", style) + all_types + "".join(MESSAGES) + PORTTYPE + "</definitions>"
            top = ['<import namespace="urn:t" location="%s"/>' % loc("abstract.wsdl", style)] + BINDINGS + [SERVICE]
        elif k == "wsdl-cycle-abca":
            files["abstract.wsdl"] = (DEFS_OPEN % "urn:t") + '<import namespace="urn:t" location="%s"/>' % loc("root.wsdl", style) + all_types + "".join(MESSAGES) + PORTTYPE + "</definitions>"
            files["binding.wsdl"] = (DEFS_OPEN % "urn:t") + '<import namespace="urn:t" location="%s"/>' % loc("abstract.wsdl", style) + "".join(BINDINGS) + "</definitions>"
            top = ['<import namespace="urn:t" location="%s"/>' % loc("binding.wsdl", style), SERVICE]
        elif k == "wsdl-cycle-against":
            # K4: the imported file's portType uses messages that live in the importer
            files["abstract.wsdl"] = (DEFS_OPEN % "urn:t") + '<import namespace="urn:t" location="%s"/>' % loc("root.wsdl", style) + PORTTYPE + "</definitions>"
            top = ['<import namespace="urn:t" location="%s"/>' % loc("abstract.wsdl", style), all_types] + MESSAGES + BINDINGS + [SERVICE]
        elif k == "wsdl-two-hops":
            # the service's bindings live two imports away, all in one namespace
            files["c.wsdl"] = (DEFS_OPEN % "urn:t") + all_types + "".join(MESSAGES) + PORTTYPE + "".join(BINDINGS) + "</definitions>"
            files["a.wsdl"] = (DEFS_OPEN % "urn:t") + '<import namespace="urn:t" location="%s"/>' % loc("c.wsdl", style) + "</definitions>"
            top = ['<import namespace="urn:t" location="%s"/>' % loc("a.wsdl", style), SERVICE]
        else:
            raise ValueError(k)
    files["root.wsdl"] = (DEFS_OPEN % "urn:t") + "".join(top) + "</definitions>"
    return files


SPLITS = ["xsd-nontype-doc-inline", "xsd-nontype-doc-include", "xsd-chameleon-include", "xsd-chameleon-include-first", "xsd-import-u", "xsd-include-t", "xsd-subdir", "wsdl-subdir", "xsd-include-cycle", "xsd-import-cycle", "wsdl-import-abstract", "wsdl-chain", "wsdl-chain-3",
          "wsdl-two-imports-same-ns", "wsdl-two-hops", "wsdl-cycle-aba", "wsdl-cycle-abca", "wsdl-cycle-against", "wsdl-types-split"]


def _zeep():
    import zeep
    import zeep.transports
    return zeep


class Timeout(Exception):
    pass


def load_fs(files):
    """the documents written to a scratch directory and loaded by path"""
    import tempfile
    import shutil
    z = _zeep()
    d = tempfile.mkdtemp(prefix="c09fs_")

    def handler(signum, frame):
        raise Timeout()
    old = signal.signal(signal.SIGALRM, handler)
    signal.alarm(20)
    try:
        for name, text in files.items():
            path = os.path.join(d, name)
            os.makedirs(os.path.dirname(path), exist_ok=True)
            with open(path, "w") as f:
                f.write(text)
        c = z.Client(os.path.join(d, "root.wsdl"))
        buf = io.StringIO()
        with contextlib.redirect_stdout(buf):
            c.wsdl.dump()
        return c, buf.getvalue()
    finally:
        signal.alarm(0)
        signal.signal(signal.SIGALRM, old)
        shutil.rmtree(d, ignore_errors=True)


def load(files, base="http://h.example/w/"):
    z = _zeep()

    class T(z.transports.Transport):
        def __init__(self):
            super().__init__()
            self.loads = []

        def load(self, url):
            self.loads.append(url)
            path = urlparse(url).path
            name = path[len("/w/"):] if path.startswith("/w/") else path.rsplit("/", 1)[-1]
            if name not in files:
                raise IOError("no such document: %s" % url)
            return files[name].encode()

    def handler(signum, frame):
        raise Timeout()
    old = signal.signal(signal.SIGALRM, handler)
    signal.alarm(20)
    try:
        c = z.Client(base + "root.wsdl", transport=T())
        buf = io.StringIO()
        with contextlib.redirect_stdout(buf):
            c.wsdl.dump()
        return c, buf.getvalue()
    finally:
        signal.alarm(0)
        signal.signal(signal.SIGALRM, old)


def normalise_dump(text):
    """`python -m zeep` output up to the numbering of generated prefixes and the order of the prefix table"""
    prefixes = {}
    out = []
    in_prefixes = False
    for line in text.splitlines():
        if line.strip() == "Prefixes:":
            in_prefixes = True
            continue
        if in_prefixes:
            m = re.match(r"^\s+(\w+): (\S+)$", line)
            if m:
                prefixes[m.group(1)] = m.group(2)
                continue
            in_prefixes = False
        out.append(line)
    body = "\n".join(out)

    def rep(m):
        return "{%s}" % prefixes.get(m.group(1), m.group(1)) + m.group(2)
    body = re.sub(r"\b(ns\d+|xsd):(\w)", rep, body)
    # sections list items in sorted order by qname text, which depends on the prefix numbering: sort lines per section
    sections, cur = [], []
    for line in body.splitlines():
        if line and not line.startswith(" "):
            if cur:
                sections.append(cur)
            cur = [line]
        else:
            cur.append(line)
    if cur:
        sections.append(cur)
    norm = []
    for s in sections:
        head, rest = s[0], [l for l in s[1:] if l.strip()]
        if head.startswith(("Global elements", "Global types", "Bindings")):
            rest = sorted(rest)
        norm.append("\n".join([head] + rest))
    return "\n".join(norm), sorted(prefixes.values())


def strip_bindings(norm):
    text, prefixes = norm
    return re.sub(r"Bindings:\n(?:\s+.*\n?)*", "Bindings:\n", text), prefixes


def exposure(client):
    out = []
    for sname, svc in client.wsdl.services.items():
        for pname, port in svc.ports.items():
            ops = sorted(port.binding._operations)
            pm = client.wsdl.types.prefix_map
            sigs = {o: re.sub(r"\b(ns\d+):", lambda m: "{%s}" % pm.get(m.group(1), m.group(1)), str(port.binding._operations[o])) for o in ops}
            out.append(dict(service=sname, port=pname, binding=port.binding.name.text, operations=ops, signatures=sigs))
    return sorted(out, key=lambda d: (d["service"], d["port"]))


def abstract_fs(files):
    """harness-side abstraction of the generated files into the model's declarations"""
    from lxml import etree
    fs = []
    for name, text in files.items():
        if not name.endswith(".wsdl"):
            continue
        root = etree.fromstring(text.encode())
        tns = root.get("targetNamespace")

        def qn(v, el):
            p, l = v.split(":")
            return [el.nsmap[p], l]
        decls = []
        for m in root.findall("{%s}message" % W):
            decls.append(dict(kind="message", name=[tns, m.get("name")], parts=[p.get("name") for p in m]))
        for pt in root.findall("{%s}portType" % W):
            ops = []
            for o in pt.findall("{%s}operation" % W):
                i = o.find("{%s}input" % W)
                out = o.find("{%s}output" % W)
                ops.append(dict(name=o.get("name"), input=qn(i.get("message"), i), output=qn(out.get("message"), out) if out is not None else None))
            decls.append(dict(kind="portType", name=[tns, pt.get("name")], ops=ops))
        for b in root.findall("{%s}binding" % W):
            decls.append(dict(kind="binding", name=[tns, b.get("name")], portType=qn(b.get("type"), b),
                              ops=[o.get("name") for o in b.findall("{%s}operation" % W)]))
        for s in root.findall("{%s}service" % W):
            decls.append(dict(kind="service", name=s.get("name"), ports=[[p.get("name"), qn(p.get("binding"), p)] for p in s.findall("{%s}port" % W)]))
        imports = []
        for im in root.findall("{%s}import" % W):
            imports.append(urlparse(urljoin("http://h.example/w/" + name, im.get("location"))).path[len("/w/"):])
        fs.append([name, dict(tns=tns, imports=imports, decls=decls)])
    return fs


def run(ctx):
    res = Result()
    import logging
    logging.getLogger("zeep").setLevel(logging.CRITICAL)
    rng = ctx.rng
    import warnings
    warnings.simplefilter("ignore")
    base_client, base_dump = load(monolith())
    base_norm = normalise_dump(base_dump)
    base_exp = exposure(base_client)
    declared = [dict(service="OrderService", port="Alt", binding="{urn:t}B11b", operations=["ping"]),
                dict(service="OrderService", port="Main", binding="{urn:t}B11", operations=["ping", "placeOrder"])]
    got = [{k: v for k, v in e.items() if k != "signatures"} for e in base_exp]
    res.case(key="monolith")
    if got != declared:
        res.failures.append(dict(what="the loaded client does not expose exactly the declared services / ports / bindings / operations",
                                 case=dict(variant="monolith"), expected=declared, got=got))
    variants = []
    # (a) permutations of the top-level definitions (8 siblings: sampled; the first 5 exhaustively among themselves)
    ntop = 1 + len(MESSAGES) + 1 + len(BINDINGS) + 1
    perms = [list(p) + list(range(5, ntop)) for p in itertools.permutations(range(5))]
    if ctx.tier == "quick" and ctx.budget <= 1:
        perms = [perms[i] for i in sorted(rng.sample(range(len(perms)), 30))]
    for _ in range(ctx.n(30, 400)):
        p = list(range(ntop))
        rng.shuffle(p)
        perms.append(p)
    perms.append(list(reversed(range(ntop))))
    for p in perms:
        variants.append(("top-order", dict(order=p), monolith(order=p)))
    # (b) declarations inside the schema (forward references)
    sp = []
    for _ in range(ctx.n(40, 600)):
        q = list(range(len(SCHEMA_T_DECLS)))
        rng.shuffle(q)
        sp.append(q)
    for p in (sp + [list(reversed(range(len(SCHEMA_T_DECLS))))]):
        variants.append(("schema-order", dict(sorder=p), monolith(sorder=p)))
    # (c) schemas inside wsdl:types
    variants.append(("types-order", dict(torder=[1, 0]), monolith(torder=[1, 0])))
    # (d) file cuts
    for k in SPLITS:
        for style in ("", "-abs", "-dot"):
            variants.append(("split", dict(split=k + style), split(k + style)))
    # (e) the same cuts as files on disk (relative, dotted and absolute paths): locations are file paths there
    for k in ("xsd-include-cycle", "xsd-import-cycle", "wsdl-cycle-aba", "xsd-subdir", "wsdl-chain"):
        for style in ("", "-dot"):
            variants.append(("split", dict(split=k + style, fs=True), split(k + style)))
    pending = []
    for kind, desc, files in variants:
        case = dict(variant=kind, **desc)
        res.case(key=(kind, str(desc)), nontrivial=True)
        res.count("variant:" + kind)
        known = "K4" if desc.get("split", "").startswith("wsdl-cycle-against") else None
        moved_bindings = desc.get("split", "").replace("-abs", "").replace("-dot", "") in ("wsdl-chain", "wsdl-chain-3", "wsdl-two-imports-same-ns", "wsdl-two-hops", "wsdl-cycle-abca")
        try:
            c, dump = load_fs(files) if desc.get("fs") else load(files)
            if desc.get("fs"):
                res.count("loaded-from-disk")
        except Timeout:
            res.failures.append(dict(what="loading did not terminate within 20 s", case=case))
            continue
        except RecursionError:
            res.failures.append(dict(what="loading ended in RecursionError (an already loaded document was not recognised)", case=case))
            continue
        except Exception as e:  # noqa
            f = dict(what="loading raised %s: %s" % (type(e).__name__, str(e)[:150]), case=case)
            if known:
                f["known"] = known
                res.known_hits[known] = res.known_hits.get(known, 0) + 1
            res.failures.append(f)
            continue
        exp = exposure(c)
        norm = normalise_dump(dump)
        fail = None
        if exp != base_exp:
            fail = "exposed services / ports / operations / signatures differ from the one-file form"
        elif norm != base_norm:
            fail = "inspection output (python -m zeep) differs from the one-file form beyond prefix numbering"
            if moved_bindings and strip_bindings(norm) == strip_bindings(base_norm):
                known = "K13"     # only the 'Bindings:' section differs, and the bindings were moved to an imported file
        if fail:
            f = dict(what=fail, case=case, expected=[{k: v for k, v in e.items() if k != "signatures"} for e in base_exp],
                     got=[{k: v for k, v in e.items() if k != "signatures"} for e in exp])
            if known:
                f["known"] = known
                res.known_hits[known] = res.known_hits.get(known, 0) + 1
            res.failures.append(f)
        if kind == "split" or kind == "top-order":
            mexp = [dict(service=e["service"], port=e["port"], binding=[e["binding"][1:].split("}")[0], e["binding"].split("}")[1]], operations=e["operations"]) for e in exp]
            pending.append(({"op": "wsdl.exposed", "fs": abstract_fs(files), "root": "root.wsdl"}, mexp, case, known))
    if ctx.model and pending:
        outs = ctx.model.run([p[0] for p in pending])
        for (mop, impl, case, known), mo in zip(pending, outs):
            m = mo.get("ok")
            if m is not None:
                m = sorted(m, key=lambda d: (d["service"], d["port"]))
                for x in m:
                    x["operations"] = sorted(x["operations"])
            if m != impl and not known:
                res.disagreements.append(dict(relation="Wsdl.exposed vs client services/ports/operations", case=case, model=m, impl=impl))
    res.sample(dict(variant="split", split="wsdl-chain", files=sorted(split("wsdl-chain"))))
    res.programs = len(variants)
    res.rule = ("one generated WSDL (two schemas with forward and cross-namespace references, 3 messages, a portType with 2 operations, 2 "
                "bindings, a service with 2 ports) in: permutations of the top-level definitions (all 120 orders of the first five in the "
                "thorough tier, sampled otherwise, plus random full permutations), permutations of the schema's declarations, swapped "
                "schemas in wsdl:types, and 19 file cuts x relative / absolute / dotted (non-canonical) locations, five of them also as files on disk (xsd:import, xsd:include, documents in sub-directories referring relatively, two hops in one namespace, include cycle, import "
                "cycle, wsdl:import, chains of 2 and 3, two imports of one namespace, A->B->A, A->B->C->A, a cycle referenced against its "
                "direction, a namespace document holding only group / attributeGroup / attribute declarations - inline and included -, a chameleon document included from two namespaces in both sibling orders). distinct = distinct variant")
    return res


def search(ctx):
    ctx.tier = "thorough"
    return run(ctx)


def replay(ctx, payload):
    r = run(ctx)
    case = payload.get("case", payload)
    bad = [f for f in r.failures if not f.get("known") and f["case"].get("variant") == case.get("variant")]
    return (not bad), "rerun: %d failures for variant %s" % (len(bad), case.get("variant"))


def replay_finding(ctx, finding):
    import logging
    logging.getLogger("zeep").setLevel(logging.CRITICAL)
    import warnings
    warnings.simplefilter("ignore")
    base_client, base_dump = load(monolith())
    try:
        c, dump = load(split(finding["witness"]["split"]))
        if finding["id"] == "K13":
            return normalise_dump(dump) != normalise_dump(base_dump)
        return exposure(c) != exposure(base_client)
    except Exception:  # noqa
        return True
