"""C12 — call arguments are bound faithfully or refused, never silently ignored (engine A, binder)."""
import copy
import json
import itertools
import random

from lxml import etree

from harness.core import Result
from harness import xsdgen, xmlcanon, enginea, valgen, kwtie

LEAN_MODULES = ["ZeepProofs.C12", "ZeepProofs.C12Faithful", "ZeepProofs.C12Choice", "ZeepProofs.C12Attrs"]
NS = "Zeep.Bind."
THEOREMS = [NS + t for t in ("c12_unknown_key_refused", "c12_unknown_key_any_depth", "c12_surplus_positional_refused", "c12_duplicate_refused",
                              "c12_occurs_refused", "c12_missing_required_refused", "c12_missing_required_attribute_refused",
                              "c12_conventions_agree", "c12_skip_omits", "c12_nil_marks", "c12_faithful")] + [
    "Zeep.BindKw." + t for t in ("c12_two_choice_branches_refused", "c12_kw_unknown_refused", "c12_kw_accepted_keeps_values", "c12_kw_conforming_accepted", "c12_choice_rendered_faithfully", "c12_kw_fields_declared")] + ["Zeep.SchemaAttrs.c12_nillable_read_as_xsd_boolean"]
LEVEL = "proof"
MANIFEST = dict(
    engine="A: lean/ZeepModel/Xsd/Bind.lean, lean/ZeepModel/Xsd/BindKw.lean (+ harness/valgen.py, harness/kwtie.py)",
    technique="Lean 4 model of zeep's binder and render-time validation on the record family (sequences of leaf / record typed elements with any "
              "occurrence bounds, nillable, repeated sequences, attributes); refusal theorems for every corruption class and agreement of the "
              "calling conventions, proved for all signatures and argument sets; differential tie on conforming calls and their single-point "
              "corruptions, plus a direct refusal oracle on the implementation (choice branches included); a second, statement-level model of the keyword "
              "pass of _process_signature over signatures with non-repeating choices (Choice.parse_kwargs with its scratch copy of the available "
              "keywords), with refusal / acceptance / nothing-ignored theorems for all signatures and calls, tied to _process_signature itself",
    text="For every record signature and every argument set the model refuses (TypeError / ValidationError before any XML exists) a keyword that  c12_nillable_read_as_xsd_boolean (ZeepProofs/C12Attrs.lean) is an obligation re-proved on every run against Generated/SchemaAttrs.lean (translator schema_attrs.py): the spellings of `nillable` the schema compiler reads as true are exactly those xsd:boolean reads as true, so whether a required member may be left out follows the declaration in every spelling."
         "names nothing — at the top level and, by induction over the path, at any nesting depth incl. inside an iteration of a repeated sequence —, "
         "surplus positional arguments, a field given twice, a repetition outside its occurrence bounds, a missing required non-nillable element "
         "and a missing required attribute; positional and keyword spellings of the same data give the same result; SkipValue omits and Nil marks "
         "exactly the element they are given for; and an accepted call is faithful (c12_faithful, mutual induction over signatures): every scalar passed at any depth — nested record, list item, iteration of a repeated sequence, attribute — is in the character data of the element sent. Every run ties the model to zeep: conforming calls generated from the section-5 grammar are made "
         "as dicts, value objects, a mix per nesting level and positionally, must give identical XML equal to the reference serialisation, and "
         "every single-point corruption (extra key, misspelt key, key of the other choice branch, extra positional, duplicate, required item "
         "removed or None, list shorter than minOccurs / longer than maxOccurs on elements and repeated sequences, SkipValue / Nil substituted) "
         "must be refused — or, for the two markers, accepted with exactly the expected document; outcome class and XML are compared with the model. "
         "For signatures with non-repeating choices (any number of branches, anywhere in the sequence): values for two branches of one choice are "
         "refused however the unused branches are spelt (c12_two_choice_branches_refused), an unknown keyword is refused (c12_kw_unknown_refused), an "
         "accepted call binds every keyword whose value counts as given with the caller's value (c12_kw_accepted_keeps_values) and a call with "
         "declared keys and at most one valued branch per choice is accepted (c12_kw_conforming_accepted); the branches of a choice are element declarations or sequences of element declarations (with optional members); "
         "c12_choice_rendered_faithfully adds the rendering side (a model of Choice.render / _find_element_to_render / Sequence.accept): for an accepted call in which one branch "
         "was given values, exactly that branch is rendered, every value given for it is emitted and nothing else is - a required member left out raises ValidationError, never a silent omission; "
         "the model is run against _process_signature and against the XML zeep renders on every spelling (absent / None / [] / value) of every name of eight signature shapes, unknown keys and shuffled key order.",
    note="Repeating choices, nested choices, all, group and wildcard members are outside the Lean models (refusal is checked on the implementation only). On the implementation, faithfulness of an "
         "accepted call is judged against the reference serialisation of what was supplied (as in C02).",
    design_ref="DESIGN.md sections 5 and 6, C12",
)
TRUSTED = ["harness/valgen.py: conforming values, the caller's conventions, the reference serialiser", "the corruption operators of harness/props/c12.py"]
ASSUMPTIONS = ["scalars are passed in their canonical python type (type coercions of wrong python types are C11's subject)"]

LEAFS = ["string", "int", "boolean", "decimal", "date"]


# ---------------------------------------------------------------------------- schema family

class BGen:
    """records: sequences of leaf / record elements, repeated sequences, optional non-repeating choices, attributes"""

    def __init__(self, rng, with_choice):
        self.rng = rng
        self.with_choice = with_choice
        self.n = 0
        self.types = {}

    def fresh(self, p):
        self.n += 1
        return "%s%d" % (p, self.n)

    def occ(self):
        r = self.rng.random()
        if r < 0.4:
            return 1, 1
        if r < 0.6:
            return 0, 1
        return self.rng.choice([(0, None), (1, None), (0, 3), (2, 3), (1, 2), (2, 2)])

    def leaf(self, occ=None, nillable=None):
        mn, mx = occ if occ else self.occ()
        return dict(k="elem", name=self.fresh("e"), type=self.rng.choice(LEAFS), min=mn, max=mx,
                    nillable=self.rng.random() < 0.2 if nillable is None else nillable)

    def elem(self, depth, occ=None):
        if depth > 0 and self.rng.random() < 0.35:
            mn, mx = occ if occ else self.occ()
            return dict(k="elem", name=self.fresh("e"), type=self.record(depth - 1), min=mn, max=mx, nillable=False)
        return self.leaf(occ)

    def record(self, depth):
        name = self.fresh("T")
        items = []
        used_rseq = False
        for _ in range(self.rng.choice([1, 2, 3, 4])):
            r = self.rng.random()
            if r < 0.7:
                items.append(self.elem(depth))
            elif r < 0.88 and not used_rseq:
                used_rseq = True
                mn, mx = self.rng.choice([(0, None), (1, None), (1, 3), (2, 2), (0, 2)])
                items.append(dict(k="seq", min=mn, max=mx, items=[self.leaf((1, 1), False)] + [self.elem(depth, self.rng.choice([(1, 1), (0, 1), (0, None)]))
                                                                                            for _ in range(self.rng.choice([0, 1, 2]))]))
            elif self.with_choice:
                mn, mx = self.rng.choice([(1, 1), (1, 1), (0, None), (1, 3), (2, 2)])
                items.append(dict(k="choice", min=mn, max=mx, items=[self.leaf((1, 1), False), self.leaf((1, 1), False)]))
            else:
                items.append(self.elem(depth))
        attrs = [dict(name=self.fresh("at"), type=self.rng.choice(LEAFS), required=self.rng.random() < 0.5) for _ in range(self.rng.choice([0, 0, 1, 2]))]
        self.types[name] = dict(kind="complex", content=dict(k="seq", items=items, min=1, max=1), attrs=attrs, base=None)
        return name

    def schema(self):
        root = self.record(self.rng.choice([0, 1, 2]))
        return dict(qualified=self.rng.random() < 0.7, attr_qualified=False, types=self.types, groups={}, simple={}, root=("root", root))


def bcase(seed, with_choice):
    rng = random.Random("B-%s-%s" % (seed, with_choice))
    src = BGen(rng, with_choice).schema()
    return enginea.VCase(seed, "bind-%s" % ("choice" if with_choice else "rec"), src=src)


# ---------------------------------------------------------------------------- calls

UNKNOWN = "zz_unknown"


def get_at(tree, path):
    for k in path:
        tree = tree[k]
    return tree


def sites(case, st, d):
    """single-point corruptions of the conforming call `d` (dict style) of value `st`.
    yields dict(kind, expect='refuse'|'accept', apply=fn(tree) mutating a deep copy, vmut=fn(value copy) for accepted ones)"""
    src = case.src
    out = []
    typemap = {}          # path of every structure dict -> its type name (for the value-object spelling)

    def add(kind, expect, apply, vmut=None, where="", path=()):
        out.append(dict(kind=kind, expect=expect, apply=apply, vmut=vmut, where=where, path=tuple(path)))

    def dict_sites(path, keys, label):
        add("extra-key", "refuse", lambda t, path=path: get_at(t, path).__setitem__(UNKNOWN, 1), where=label, path=path)
        add("extra-key-none", "refuse", lambda t, path=path: get_at(t, path).__setitem__(UNKNOWN, None), where=label, path=path)
        for k in keys:
            def rename(t, path=path, k=k):
                dd = get_at(t, path)
                dd[k + "x"] = dd.pop(k)
            add("misspelt-key", "refuse", rename, where=label + "." + k, path=path)

    def walk_struct(s, path, vpath, label):
        dd = get_at(d, path)
        if path:
            typemap[tuple(path)] = s["type"]
        dict_sites(path, list(dd.keys()), label)
        for i, (a, v) in enumerate(s["attrs"]):
            if a["required"]:
                an = a["zn"][s["type"]]
                add("required-attribute-removed", "refuse", lambda t, path=path, an=an: get_at(t, path).pop(an), where=label + ".@" + an)
        if s["content"] is not None:
            walk_particle(s["content"], path, vpath + ["content"], label, False)

    def walk_particle(v, path, vpath, label, in_choice):
        k = v["k"]
        p = v["p"]
        n = p.get("zn")
        dd = get_at(d, path)
        if k == "elem":
            mult = p.get("max", 1) != 1
            if not mult:
                if n in dd and v["items"]:
                    it = v["items"][0]
                    if p["min"] >= 1 and not p.get("nillable") and not in_choice and "nil" not in it:
                        add("required-removed", "refuse", lambda t, path=path, n=n: get_at(t, path).pop(n), where=label + "." + n)
                        add("required-none", "refuse", lambda t, path=path, n=n: get_at(t, path).__setitem__(n, None), where=label + "." + n)
                    if not in_choice and "nil" not in it:
                        add("skip-value", "accept", lambda t, path=path, n=n: get_at(t, path).__setitem__(n, "__SKIP__"),
                            vmut=lambda s2, vpath=vpath: get_at(s2, vpath).__setitem__("items", []), where=label + "." + n)
                        add("nil-marker", "accept", lambda t, path=path, n=n: get_at(t, path).__setitem__(n, "__NIL__"),
                            vmut=lambda s2, vpath=vpath: get_at(s2, vpath).__setitem__("items", [dict(nil=True)]), where=label + "." + n)
                    if "struct" in it and isinstance(dd[n], dict):
                        walk_struct(it["struct"], path + [n], vpath + ["items", 0, "struct"], label + "." + n)
            else:
                lst = dd.get(n)
                if isinstance(lst, list):
                    if p["min"] >= 1 and not in_choice:
                        add("list-too-short", "refuse", lambda t, path=path, n=n, m=p["min"]: get_at(t, path).__setitem__(n, get_at(t, path)[n][:m - 1]),
                            where=label + "." + n)
                    if p["max"] is not None and lst:
                        def longer(t, path=path, n=n, m=p["max"]):
                            l2 = get_at(t, path)[n]
                            while len(l2) <= m:
                                l2.append(copy.deepcopy(l2[0]))
                        add("list-too-long", "refuse", longer, where=label + "." + n)
                    for i, it in enumerate(v["items"]):
                        if "struct" in it and isinstance(lst[i], dict):
                            walk_struct(it["struct"], path + [n, i], vpath + ["items", i, "struct"], "%s.%s[%d]" % (label, n, i))
        elif k == "seq":
            if p.get("max", 1) != 1:
                lst = dd.get(n)
                if isinstance(lst, list):
                    if p["min"] >= 1:
                        add("iterations-too-few", "refuse", lambda t, path=path, n=n, m=p["min"]: get_at(t, path).__setitem__(n, get_at(t, path)[n][:m - 1]),
                            where=label + "." + n)
                    if p["max"] is not None and lst:
                        def longer(t, path=path, n=n, m=p["max"]):
                            l2 = get_at(t, path)[n]
                            while len(l2) <= m:
                                l2.append(copy.deepcopy(l2[0]))
                        add("iterations-too-many", "refuse", longer, where=label + "." + n)
                    for i, r in enumerate(v["rounds"]):
                        dict_sites(path + [n, i], list(lst[i].keys()), "%s.%s[%d]" % (label, n, i))
                        for ci, c in enumerate(r):
                            walk_particle(c, path + [n, i], vpath + ["rounds", i, ci], "%s.%s[%d]" % (label, n, i), False)
            else:
                for ri, r in enumerate(v["rounds"][:1]):
                    for ci, c in enumerate(r):
                        walk_particle(c, path, vpath + ["rounds", ri, ci], label, in_choice)
        elif k == "choice" and p.get("max", 1) != 1:
            lst = dd.get(n)
            if isinstance(lst, list):
                if p["min"] >= 1:
                    add("iterations-too-few", "refuse", lambda t, path=path, n=n, m=p["min"]: get_at(t, path).__setitem__(n, get_at(t, path)[n][:m - 1]),
                        where=label + "." + n)
                if p["max"] is not None and lst:
                    def longer(t, path=path, n=n, m=p["max"]):
                        l2 = get_at(t, path)[n]
                        while len(l2) <= m:
                            l2.append(copy.deepcopy(l2[0]))
                    add("iterations-too-many", "refuse", longer, where=label + "." + n)
                for i, (bi, c) in enumerate(v["rounds"]):
                    add("extra-key", "refuse", lambda t, path=path + [n, i]: get_at(t, path).__setitem__(UNKNOWN, 1), where="%s.%s[%d]" % (label, n, i))
                    other = p["items"][1 - bi]
                    val = valgen.VLEAVES[other["type"]][1][0]
                    add("other-choice-branch", "refuse", lambda t, path=path + [n, i], on=other["zn"], val=val: get_at(t, path).__setitem__(on, val),
                        where="%s.%s[%d]" % (label, n, i))
        elif k == "choice" and p.get("max", 1) == 1:
            for ri, (bi, c) in enumerate(v["rounds"][:1]):
                walk_particle(c, path, vpath + ["rounds", ri, 1], label, True)
                other = p["items"][1 - bi] if len(p["items"]) == 2 else None
                if other is not None and other["k"] == "elem":
                    val = valgen.VLEAVES[other["type"]][1][0]
                    add("other-choice-branch", "refuse", lambda t, path=path, on=other["zn"], val=val: get_at(t, path).__setitem__(on, val), where=label)

    walk_struct(st, [], [], "root")
    return out, typemap


def objectify(case, tree, typemap, keep, rng):
    """spell some of the structure dicts as value objects (deepest first); never one on or below the path `keep`"""
    zs = case.schemas[True][0]
    for path in sorted(typemap, key=len, reverse=True):
        if path[:len(keep)] == tuple(keep) or tuple(keep)[:len(path)] == path:
            continue
        if rng.random() < 0.6:
            parent = get_at(tree, path[:-1])
            node = parent[path[-1]]
            if isinstance(node, dict):
                try:
                    parent[path[-1]] = zs.get_type("{%s}%s" % (xsdgen.TNS, typemap[path]))(**materialise(node))
                except Exception:  # noqa  (a corruption elsewhere in this dict: leave it a dict)
                    pass
    return tree


def materialise(tree):
    """replace the textual markers by zeep's marker objects"""
    from zeep import xsd
    if isinstance(tree, dict):
        return {k: materialise(v) for k, v in tree.items()}
    if isinstance(tree, list):
        return [materialise(v) for v in tree]
    if tree == "__SKIP__":
        return xsd.SkipValue
    if tree == "__NIL__":
        return xsd.Nil
    return tree


def impl_call(case, args, kwargs):
    """construct + render on the implementation: ('ok', node) or (exception class, message)"""
    zs, root = case.schemas[True]
    try:
        obj = root(*materialise(list(args)), **materialise(kwargs))
        parent = etree.Element("parent")
        root.render(parent, obj)
        return "ok", enginea.copy_node(parent[0])
    except Exception as e:  # noqa
        return type(e).__name__, str(e)[:160]


# ---------------------------------------------------------------------------- model encoding

def modelled(src):
    def ok_particle(p, top):
        if p["k"] == "elem":
            return p["type"] in LEAFS or ok_type(p["type"])
        if p["k"] == "seq" and top and p.get("max", 1) != 1:
            return all(c["k"] == "elem" and ok_particle(c, False) for c in p["items"])
        return False

    def ok_type(t):
        tt = src["types"][t]
        return tt["kind"] == "complex" and tt["content"] is not None and tt["content"]["k"] == "seq" and all(ok_particle(c, True) for c in tt["content"]["items"])
    return ok_type(src["root"][1])


def bfields(src, tname):
    t = src["types"][tname]

    def field(p):
        if p["k"] == "elem":
            ty = dict(k="leaf") if p["type"] in LEAFS else dict(k="record", **bfields(src, p["type"]))
            return dict(k="elem", name=p["zn"], min=p["min"], max=p["max"], nillable=bool(p.get("nillable")), ty=ty)
        return dict(k="rseq", name=p["zn"], min=p["min"], max=p["max"], fields=[field(c) for c in p["items"]])
    return dict(fields=[field(p) for p in t["content"]["items"]],
                attrs=[dict(name=a["zn"][tname], required=bool(a["required"])) for a in t["attrs"]])


def to_arg(v):
    if v is None:
        return None
    if v == "__SKIP__":
        return "skip"
    if v == "__NIL__":
        return "nil"
    if isinstance(v, dict):
        return {"dict": [[k, to_arg(x)] for k, x in v.items()]}
    if isinstance(v, list):
        return {"list": [to_arg(x) for x in v]}
    return {"leaf": enginea.lex_of_native(v)}


def strip_ns(n):
    """local names only (the model's binder knows fields by name); xsi:nil kept"""
    attrs = [[[a[0][0] if a[0][0] == xsdgen.XSI else None, a[0][1]], a[1]] for a in n["a"]]
    return dict(t=[None, n["t"][1]], a=sorted(attrs, key=lambda p: (p[0][0] or "", p[0][1])), x=n["x"], k=[strip_ns(c) for c in n["k"]])


def error_class(name):
    if name == "ok":
        return "ok"
    if name == "TypeError":
        return "TypeError"
    if name == "ValidationError":
        return "ValidationError"
    return "Other:" + name


# ---------------------------------------------------------------------------- the run

def one_schema(ctx, res, case, pending, per):
    src = case.src
    zs, root = case.schemas[True]
    in_model = modelled(src)
    res.count("schema:" + ("modelled" if in_model else "implementation-only"))
    bf = bfields(src, src["root"][1]) if in_model else None
    for j in range(per):
        st, feat, rng = case.value(j)
        if "empty-lexical" in feat:
            continue
        ref = valgen.ref_doc(src, st)
        plain = valgen.strip_markers(ref)
        if not case.validator.validate(plain):
            res.count("generated-reference-invalid")
            continue
        ty = case.model_type(xsdgen.height(plain) + 1)
        base = valgen.Caller(src, zs, rng, "dict", explicit=True).struct_fields(st)
        c0 = dict(seed=case.seed, profile=case.profile, index=j, xsd=case.xsd, reference=etree.tostring(plain).decode())
        res.case(key=(case.profile, case.seed, j), nontrivial=len(plain) > 0)

        # (a) conventions: dict / value objects / mix / positional prefix -> identical XML = reference
        names = [n for n, _ in root.type.elements] + [n for n, _ in root.type.attributes]
        variants = [("dict", (), base)]
        for style in ("object", "mixed"):
            variants.append((style, (), valgen.Caller(src, zs, rng, style, explicit=True).struct_fields(st)))
        npos = rng.randint(1, len(names))
        has_choice = case.profile.endswith("choice")       # zeep refuses positional arguments for types with a choice (explicit TypeError)
        if all(n in base for n in names[:npos]) and not has_choice:
            variants.append(("positional", tuple(base[n] for n in names[:npos]), {k: v for k, v in base.items() if k not in names[:npos]}))
        for label, args, kw in variants:
            res.count("convention:" + label)
            kind, out = impl_call(case, args, kw)
            c = dict(c0, call=dict(convention=label, args=valgen.canon(list(args)), kwargs=valgen.canon(kw)))
            if kind != "ok":
                res.failures.append(dict(what="a conforming call (%s) is refused: %s %s" % (label, kind, out), case=c))
                continue
            d = valgen.docs_equal(ty, ref, out)
            if d:
                res.failures.append(dict(what="the %s convention does not produce the reference XML: %s" % (label, d), case=c))
            if in_model and label in ("dict", "positional") and not (feat & {"nil"}):
                op = dict(op="bind.call", tag="root", pos=[to_arg(a) for a in args], kw=[[k, to_arg(v)] for k, v in kw.items()], **bf)
                pending.append((op, kind, out, c))
                if label == "dict":
                    # what the call denotes (ZeepModel/Xsd/Denote.lean): the schema against zeep's compiled type, the
                    # instance against the model's decode of what zeep rendered
                    DENOTE.append((dict(op="bind.denote", kw=[[k, to_arg(v)] for k, v in kw.items()], ty=case.model_type(8), **bf),
                                   {"op": "xsd.parse", "mode": "strict", "ty": ty, "node": xmlcanon.node(out, strip_ws=True)}, c))

        if feat & {"nil"}:
            continue          # corruption sites below are computed on plain-dict calls without markers
        # (b) single-point corruptions
        all_sites, typemap = sites(case, st, base)
        rng.shuffle(all_sites)
        chosen = []
        seen = set()
        for s in all_sites:         # at most two per kind per value, every kind represented
            if sum(1 for x in chosen if x["kind"] == s["kind"]) < 2:
                chosen.append(s)
        extra = [dict(kind="extra-positional", expect="refuse", where="root"), dict(kind="duplicate-positional-keyword", expect="refuse", where="root")]
        for s in chosen + extra:
            res.count("corruption:" + s["kind"])
            args = ()
            if s["kind"] == "extra-positional":
                if has_choice or not all(n in base for n in names):
                    continue
                args, kw = tuple(base[n] for n in names) + ("EXTRA",), {}
            elif s["kind"] == "duplicate-positional-keyword":
                if names[0] not in base:
                    continue
                args, kw = (base[names[0]],), dict(base)
            else:
                kw = copy.deepcopy(base)
                s["apply"](kw)
            kw_plain = copy.deepcopy(kw)
            kw_impl = kw
            if s["kind"] not in ("extra-positional", "duplicate-positional-keyword") and s["expect"] == "refuse" and rng.random() < 0.5:
                kw_impl = objectify(case, copy.deepcopy(kw), typemap, s["path"], rng)
                res.count("corruption-with-value-objects")
            if (s["kind"] not in ("extra-positional", "duplicate-positional-keyword") and not has_choice and s.get("path")
                    and all(n in kw_impl for n in names) and rng.random() < 0.4):
                # the corrupted (nested) data passed positionally
                args, kw_impl = tuple(kw_impl[n] for n in names), {}
                kw = {}
                res.count("corruption-passed-positionally")
            kind, out = impl_call(case, args, kw_impl)
            c = dict(c0, call=dict(corruption=s["kind"], where=s["where"], args=valgen.canon(list(args)), kwargs=valgen.canon(kw)))
            if s["expect"] == "refuse":
                if kind == "ok":
                    res.failures.append(dict(what="corrupted call accepted (%s at %s): XML built without an error" % (s["kind"], s["where"]), case=dict(c, emitted=etree.tostring(out).decode()[:600])))
            else:
                st2 = copy.deepcopy(st)
                s["vmut"](st2)
                ref2 = valgen.ref_doc(src, st2)
                if kind != "ok":
                    res.failures.append(dict(what="explicit marker refused (%s at %s): %s %s" % (s["kind"], s["where"], kind, out), case=c))
                else:
                    d = valgen.docs_equal(ty, ref2, out)
                    if d:
                        res.failures.append(dict(what="explicit marker (%s at %s) does not produce the expected XML: %s" % (s["kind"], s["where"], d), case=c))
            if in_model:
                if args and not kw and s["kind"] not in ("extra-positional", "duplicate-positional-keyword"):
                    op = dict(op="bind.call", tag="root", pos=[to_arg(kw_plain[n]) for n in names], kw=[], **bf)
                else:
                    op = dict(op="bind.call", tag="root", pos=[to_arg(a) for a in args], kw=[[k, to_arg(v)] for k, v in kw.items()], **bf)
                pending.append((op, kind, out, c))


DENOTE = []


def strip_item_ns(j):
    """expanded names of attributes without their namespace (the binder model has local names only)"""
    if isinstance(j, dict):
        out = {}
        for k, v in j.items():
            if k == "attrs":
                out[k] = sorted([[None, a[0][1]], a[1]] for a in v)      # attribute order carries no information
            else:
                out[k] = strip_item_ns(v)
        return out
    if isinstance(j, list):
        return [strip_item_ns(x) for x in j]
    return j


def norm_item(j):
    """instances modulo what the decoder cannot see at the end of its input: trailing members of a round that contribute
    nothing have no instance, and a round without any instance is no round (outside the theorem's WTItemR both ways)"""
    if isinstance(j, dict):
        if "seq" in j and len(j) == 1:
            rounds = []
            for r in j["seq"]:
                r = [norm_item(i) for i in r]
                while r and r[-1] in ({"elems": []}, {"seq": []}):
                    r.pop()
                if r:
                    rounds.append(r)
            return {"seq": rounds}
        out = {k: norm_item(v) for k, v in j.items()}
        if out == {"attrs": [], "content": {"seq": []}, "raw": []}:
            return {"none": []}          # known finding K8: an empty complex element decodes to None (outside WTItemR)
        return out
    if isinstance(j, list):
        return [norm_item(x) for x in j]
    return j


def compare_denotation(ctx, res):
    if not (ctx.model and DENOTE):
        del DENOTE[:]
        return
    den = ctx.model.run([d[0] for d in DENOTE])
    dec = ctx.model.run([d[1] for d in DENOTE])
    n = 0
    for (dop, pop, c), a, b in zip(DENOTE, den, dec):
        if "err" in a or "err" in b:
            res.disagreements.append(dict(relation="driver error (bind.denote / xsd.parse)", case=c, model=[a, b]))
            continue
        a, b = a["ok"], b["ok"]
        if not (a["no_nillable"] and a["no_nil"]):
            res.count("denote:outside-theorem(nillable)")
            continue
        n += 1
        res.count("denote:compared")
        if not a["ty_matches"]:
            res.disagreements.append(dict(relation="Denote.toTy (signature) vs the type zeep compiled", case=c, model="toTy differs from dump_type"))
        elif "error" in b:
            res.disagreements.append(dict(relation="model decode of zeep's rendering of an accepted call", case=c, model=b))
        elif strip_item_ns(a["item"]) == strip_item_ns(b["item"]):
            res.count("denote:literally-equal")
        elif norm_item(strip_item_ns(a["item"])) != norm_item(strip_item_ns(b["item"])):
            res.disagreements.append(dict(relation="Denote.itemOf (arguments) vs model decode of what zeep rendered", case=c,
                                          model=json.dumps(strip_item_ns(a["item"]))[:500], impl=json.dumps(strip_item_ns(b["item"]))[:500]))
    res.extra["denotations_compared"] = n
    del DENOTE[:]


def compare_model(ctx, res, pending):
    compare_denotation(ctx, res)
    if not (ctx.model and pending):
        return
    outs = ctx.model.run([p[0] for p in pending])
    res.extra["model_comparisons"] = len(pending)
    for (op, kind, out, c), mo in zip(pending, outs):
        res.count("model-outcome:" + str((mo.get("ok") or {}).get("error", "ok")))
        m = mo.get("ok")
        if m is None:
            res.disagreements.append(dict(relation="driver error", case=c, model=mo))
            continue
        icls = error_class(kind)
        if "error" in m:
            if m["error"] == "unsupported":
                res.count("model-unsupported-shape")
                continue
            if m["error"] != icls:
                res.disagreements.append(dict(relation="Bind.call vs element(*args, **kwargs) + render (outcome)", case=c, model=m["error"], impl=icls + (" " + out if kind != "ok" else "")))
            continue
        if icls != "ok":
            res.disagreements.append(dict(relation="Bind.call vs element(*args, **kwargs) + render (outcome)", case=c, model="ok", impl=icls + " " + str(out)))
            continue
        zn = strip_ns(xmlcanon.node(out, strip_ws=True))
        mn = strip_ns(m["node"])
        if zn != mn and not _lex_eq(zn, mn):
            res.disagreements.append(dict(relation="Bind.call vs element(*args, **kwargs) + render (XML)", case=c, model=json.dumps(mn)[:600], impl=json.dumps(zn)[:600]))


def _lex_eq(a, b):
    if a["t"] != b["t"] or [x[0] for x in a["a"]] != [x[0] for x in b["a"]] or len(a["k"]) != len(b["k"]):
        return False
    for x, y in zip(a["a"], b["a"]):
        if x[1] != y[1] and not any(valgen.lex_equal(t, x[1], y[1]) for t in ("decimal", "boolean")):
            return False
    if (a["x"] or "") != (b["x"] or "") and not any(valgen.lex_equal(t, a["x"], b["x"]) for t in ("decimal", "boolean")):
        return False
    return all(_lex_eq(x, y) for x, y in zip(a["k"], b["k"]))


HAND_XSD = ('<xs:schema xmlns:xs="http://www.w3.org/2001/XMLSchema" xmlns:t="urn:fam" targetNamespace="urn:fam" elementFormDefault="qualified">'
            '<xs:element name="item" type="xs:string"/>'
            # the same global element referenced with different occurrence bounds, in both declaration orders
            '%s'
            '<xs:complexType name="Open"><xs:sequence><xs:element name="a" type="xs:string"/><xs:element name="b" type="xs:int" minOccurs="0"/></xs:sequence>'
            '<xs:attribute name="id" type="xs:string"/><xs:anyAttribute processContents="lax"/></xs:complexType>'
            '<xs:element name="open" type="t:Open"/></xs:schema>')
LAX = '<xs:element name="lax"><xs:complexType><xs:sequence><xs:element ref="t:item" minOccurs="0" maxOccurs="unbounded"/></xs:sequence></xs:complexType></xs:element>'
TIGHT = ('<xs:element name="tight"><xs:complexType><xs:sequence><xs:element name="n" type="xs:int"/><xs:element ref="t:item"/></xs:sequence></xs:complexType></xs:element>'
         '<xs:element name="pair"><xs:complexType><xs:sequence><xs:element ref="t:item" minOccurs="2" maxOccurs="2"/></xs:sequence></xs:complexType></xs:element>')


def hand_cases(ctx, res):
    """hand-written signatures outside the generator: one global element referenced (ref=) from several places with different
    occurrence bounds, in both declaration orders; a type with xsd:anyAttribute called positionally"""
    import zeep.xsd
    for order, decls in (("lax-first", LAX + TIGHT), ("tight-first", TIGHT + LAX)):
        zs = zeep.xsd.Schema(etree.fromstring((HAND_XSD % decls).encode()))
        el = lambda n: zs.get_element("{urn:fam}" + n)     # noqa
        calls = [
            # (element, args, kwargs, expected: 'ok' / 'refuse', what)
            ("lax", (), {}, "ok", "no item for {0,unbounded}"),
            ("lax", (), {"item": ["a", "b", "c"]}, "ok", "three items for {0,unbounded}"),
            ("tight", (), {"n": 1, "item": "x"}, "ok", "one item for {1,1}"),
            ("tight", (), {"n": 1}, "refuse", "required ref element missing"),
            ("tight", (), {"n": 1, "item": ["x", "y"]}, "refuse", "a list for a {1,1} ref element"),
            ("pair", (), {"item": ["x", "y"]}, "ok", "two items for {2,2}"),
            ("pair", (), {"item": ["x"]}, "refuse", "one item for {2,2}"),
            ("pair", (), {"item": ["x", "y", "z"]}, "refuse", "three items for {2,2}"),
            ("pair", (), {}, "refuse", "no item for {2,2}"),
            ("open", ("A", 1, "ID"), {}, "ok", "positional fields and attribute of a type with anyAttribute"),
            ("open", ("A", 1, "ID", {"extra": "1"}), {}, "ok", "a dict for the anyAttribute slot"),
            ("open", ("A", 1, "ID", "SURPLUS"), {}, "refuse", "a surplus non-dict positional after the declared ones"),
            ("open", ("A", 1, "ID", {"extra": "1"}, "SURPLUS"), {}, "refuse", "a surplus positional after the anyAttribute slot"),
            ("open", ("A",), {"zz_unknown": 1}, "refuse", "unknown keyword on a type with anyAttribute"),
        ]
        for name, args, kw, expect, what in calls:
            res.case(key=("hand", order, name, repr(args), repr(kw)), nontrivial=True)
            res.count("hand-written:" + ("ref-bounds" if name != "open" else "anyAttribute"))
            case = dict(kind="hand", order=order, element=name, args=repr(args), kwargs=repr(kw), what=what)
            try:
                e = el(name)
                parent = etree.Element("p")
                e.render(parent, e(*args, **kw))
                out = "ok"
                emitted = etree.tostring(parent[0]).decode()
            except Exception as ex:  # noqa
                out, emitted = type(ex).__name__, str(ex)[:100]
            if expect == "ok" and out != "ok":
                res.failures.append(dict(what="a conforming call is refused (%s): %s %s" % (what, out, emitted), case=case))
            elif expect == "refuse" and out == "ok":
                res.failures.append(dict(what="corrupted call accepted (%s): XML built without an error: %s" % (what, emitted[:300]), case=case))
            elif expect == "refuse":
                res.count("hand-written:refused-with:" + out)        # any exception before XML exists is a refusal
            elif expect == "ok" and name in ("lax", "tight", "pair"):
                n_items = emitted.count("item>") // 2 + emitted.count("item/>")
                want = len(kw.get("item", [])) if isinstance(kw.get("item"), list) else (1 if "item" in kw else 0)
                if n_items != want:
                    res.failures.append(dict(what="%d item elements emitted, %d supplied (%s)" % (n_items, want, what), case=case))


FAM2_XSD = ('<xs:schema xmlns:xs="http://www.w3.org/2001/XMLSchema" xmlns:t="urn:fam" targetNamespace="urn:fam" elementFormDefault="qualified">'
            '<xs:element name="pay3"><xs:complexType><xs:sequence><xs:element name="amount" type="xs:int"/><xs:choice>%s</xs:choice></xs:sequence></xs:complexType></xs:element>'
            '<xs:element name="pay4"><xs:complexType><xs:sequence><xs:element name="amount" type="xs:int"/><xs:choice>%s</xs:choice><xs:element name="memo" type="xs:string" minOccurs="0"/></xs:sequence></xs:complexType></xs:element>'
            '<xs:element name="order"><xs:complexType><xs:sequence><xs:element name="id" type="xs:string"/><xs:sequence minOccurs="0"><xs:element name="street" type="xs:string"/>'
            '<xs:element name="zip" type="xs:string" minOccurs="0"/><xs:element name="country" type="xs:string" minOccurs="0"/></xs:sequence>'
            '<xs:element name="note" type="xs:string" minOccurs="0"/></xs:sequence></xs:complexType></xs:element>'
            '<xs:element name="order2"><xs:complexType><xs:sequence><xs:element name="id" type="xs:string"/><xs:sequence minOccurs="0"><xs:element name="street" type="xs:string"/>'
            '<xs:element name="city" type="xs:string"/><xs:element name="zip" type="xs:string" minOccurs="0"/></xs:sequence></xs:sequence></xs:complexType></xs:element>'
            '<xs:complexType name="Marker"/><xs:complexType name="Marker2"><xs:sequence/></xs:complexType>'
            '<xs:element name="pay5"><xs:complexType><xs:sequence><xs:element name="amount" type="xs:int"/><xs:choice><xs:element name="card" type="xs:string"/>'
            '<xs:element name="cash" type="t:Marker"/><xs:element name="barter" type="t:Marker2"/></xs:choice></xs:sequence></xs:complexType></xs:element>'
            + "".join('<xs:element name="w_%s"><xs:complexType><xs:sequence><xs:element ref="t:%s"/></xs:sequence></xs:complexType></xs:element>' % (n, n)
                      for n in ("pay3", "pay4", "pay5", "order", "order2")) +
            '</xs:schema>')
BRANCHES = ["card", "iban", "voucher", "cash"]


def hand_cases2(ctx, res):
    """every assignment of {not mentioned, explicit None, a value} to the branches of a 3- and a 4-branch choice (two values must be
    refused however the other branches are spelt; what serialize_object() of a value object produces mentions every branch); every
    subset of the members of an optional nested sequence with required members (an optional member without the required one must be refused)"""
    import zeep.xsd
    br = lambda k: "".join('<xs:element name="%s" type="xs:string"/>' % b for b in BRANCHES[:k])   # noqa
    zs = zeep.xsd.Schema(etree.fromstring((FAM2_XSD % (br(3), br(4))).encode()))
    calls = []
    for name, k in (("pay3", 3), ("pay4", 4)):
        for combo in itertools.product(("absent", "none", "val"), repeat=k):
            for conv in ("kw", "dict"):
                kw = {"amount": 5}
                for b, c in zip(BRANCHES, combo):
                    if c == "none":
                        kw[b] = None
                    elif c == "val":
                        kw[b] = b.upper()
                nval = combo.count("val")
                calls.append((name, conv, kw, "refuse" if nval >= 2 else ("ok" if nval == 1 else "either"), "choice branches " + "/".join(combo)))
    for present in itertools.product((0, 1), repeat=3):
        kw = {"id": "7"}
        kw.update({n: n.upper() for n, c in zip(("street", "zip", "country"), present) if c})
        expect = "ok" if present[0] else ("refuse" if any(present[1:]) else "either")
        for conv in ("kw", "dict"):
            calls.append(("order", conv, kw, expect, "optional nested sequence members " + repr(present)))
    for present in itertools.product((0, 1), repeat=3):
        kw = {"id": "7"}
        kw.update({n: n.upper() for n, c in zip(("street", "city", "zip"), present) if c})
        expect = "ok" if present[0] and present[1] else ("refuse" if any(present) else "either")
        for conv in ("kw", "dict"):
            calls.append(("order2", conv, kw, expect, "optional nested sequence (two required members) " + repr(present)))
    # a branch that is a marker element (a type without fields), selected with a pre-built value object
    for mk, mty in (("cash", "Marker"), ("barter", "Marker2")):
        marker = zs.get_type("{urn:fam}" + mty)()
        for conv in ("kw", "dict"):
            calls.append(("pay5", conv, {"amount": 5, mk: marker}, "ok-marker:" + mk, "marker branch %s given as a value object" % mk))
            calls.append(("pay5", conv, {"amount": 5, "card": "CARD", mk: marker}, "refuse", "marker branch %s (value object) beside another branch" % mk))
            calls.append(("pay5", conv, {"amount": 5, "card": None, mk: marker}, "ok-marker:" + mk, "marker branch %s, the other branch None" % mk))
    for name, conv, kw, expect, what in calls:
        res.case(key=("hand2", name, conv, repr(kw)), nontrivial=True)
        res.count("hand-written:" + ("choice-branches" if name.startswith("pay") else "optional-nested-sequence"))
        case = dict(kind="hand2", element=name, convention=conv, kwargs=repr(kw), what=what)
        e = zs.get_element("{urn:fam}" + (name if conv == "kw" else "w_" + name))
        try:
            parent = etree.Element("p")
            if conv == "kw":
                e.render(parent, e(**kw))
            else:
                # a plain dictionary where the wrapping signature expects the complex value
                e.render(parent, e(**{name: dict(kw)}))
            out = "ok"
            emitted = etree.tostring(parent[0]).decode()
        except Exception as ex:  # noqa
            out, emitted = type(ex).__name__, str(ex)[:100]
        if expect.startswith("ok-marker:"):
            mk = expect.split(":")[1]
            if out != "ok":
                res.failures.append(dict(what="a conforming call is refused (%s): %s %s" % (what, out, emitted), case=case))
            elif (":%s/>" % mk) not in emitted and ("<%s/>" % mk) not in emitted and (":%s>" % mk) not in emitted:
                res.failures.append(dict(what="the selected marker branch is silently left out of the XML (%s): %s" % (what, emitted[:300]), case=case))
            continue
        if expect == "ok" and out != "ok":
            res.failures.append(dict(what="a conforming call is refused (%s): %s %s" % (what, out, emitted), case=case))
        elif expect == "refuse" and out == "ok":
            res.failures.append(dict(what="corrupted call accepted (%s): XML built without an error: %s" % (what, emitted[:300]), case=case))
        elif out == "ok":
            lost = [k for k, v in kw.items() if v is not None and ">%s<" % v not in emitted]
            if lost:
                res.failures.append(dict(what="supplied argument(s) %s silently left out of the XML (%s): %s" % (lost, what, emitted[:300]), case=case))


def nillable_spelling_cases(ctx, res):
    """a required element called with None: refused unless the declaration says nillable - in every lexical spelling of the
    xsd:boolean attribute (absent, false, 0 mean "not nillable"; true and 1 mean nillable)"""
    import zeep.xsd
    for spelling, nillable in ((None, False), ("false", False), ("0", False), ("true", True), ("1", True)):
        for kind, ty in (("leaf", 'type="xs:string"'), ("record", 'type="t:R"')):
            attr = "" if spelling is None else ' nillable="%s"' % spelling
            xsd = ('<xs:schema xmlns:xs="http://www.w3.org/2001/XMLSchema" xmlns:t="urn:fam" targetNamespace="urn:fam" elementFormDefault="qualified">'
                   '<xs:complexType name="R"><xs:sequence><xs:element name="x" type="xs:string"/></xs:sequence></xs:complexType>'
                   '<xs:element name="root"><xs:complexType><xs:sequence><xs:element name="a" type="xs:string"/><xs:element name="r" %s%s/>'
                   '</xs:sequence></xs:complexType></xs:element></xs:schema>' % (ty, attr))
            zs = zeep.xsd.Schema(etree.fromstring(xsd.encode()))
            e = zs.get_element("{urn:fam}root")
            for how, kw in (("explicit None", dict(a="A", r=None)), ("not mentioned", dict(a="A"))):
                res.case(key=("nillable-spelling", spelling, kind, how), nontrivial=True)
                res.count("hand-written:nillable-spellings")
                case = dict(kind="hand2", probe="nillable-spelling", spelling=spelling, member=kind, how=how)
                try:
                    parent = etree.Element("p")
                    e.render(parent, e(**kw))
                    out, emitted = "ok", etree.tostring(parent[0]).decode()
                except Exception as ex:  # noqa
                    out, emitted = type(ex).__name__, str(ex)[:100]
                if not nillable and out == "ok":
                    res.failures.append(dict(what="a call that leaves out the required, non-nillable member (nillable %s; %s) is accepted: %s"
                                                  % ("absent" if spelling is None else "= %r" % spelling, how, emitted[:200]), case=case))
                if nillable and out != "ok":
                    res.failures.append(dict(what="None for a nillable required member is refused: %s %s" % (out, emitted), case=case))


EDIT_WSDL = """<?xml version="1.0"?>
<definitions xmlns="http://schemas.xmlsoap.org/wsdl/" xmlns:soap="http://schemas.xmlsoap.org/wsdl/soap/"
  xmlns:xsd="http://www.w3.org/2001/XMLSchema" xmlns:tns="urn:ed" targetNamespace="urn:ed">
  <types><xsd:schema targetNamespace="urn:ed" elementFormDefault="qualified" xmlns:tns="urn:ed">
    <xsd:complexType name="Addr"><xsd:sequence><xsd:element name="street" type="xsd:string"/><xsd:element name="zip" type="xsd:string" minOccurs="0"/></xsd:sequence></xsd:complexType>
    <xsd:complexType name="Line"><xsd:sequence><xsd:element name="sku" type="xsd:string"/><xsd:element name="qty" type="xsd:int"/></xsd:sequence></xsd:complexType>
    <xsd:element name="order"><xsd:complexType><xsd:sequence><xsd:element name="id" type="xsd:string"/><xsd:element name="addr" type="tns:Addr"/>
      <xsd:element name="line" type="tns:Line" maxOccurs="3"/></xsd:sequence></xsd:complexType></xsd:element>
    <xsd:element name="ack" type="xsd:string"/></xsd:schema></types>
  <message name="mi"><part name="p" element="tns:order"/></message><message name="mo"><part name="p" element="tns:ack"/></message>
  <portType name="pt"><operation name="order"><input message="tns:mi"/><output message="tns:mo"/></operation></portType>
  <binding name="b" type="tns:pt"><soap:binding style="document" transport="http://schemas.xmlsoap.org/soap/http"/>
    <operation name="order"><soap:operation soapAction="o"/><input><soap:body use="literal"/></input><output><soap:body use="literal"/></output></operation></binding>
  <service name="svc"><port name="p" binding="tns:b"><soap:address location="http://h.example/s"/></port></service>
</definitions>"""


def inplace_edit_history(ctx, res):
    """a caller that keeps ONE argument structure and edits it in place between calls of the same operation (polling / retry
    code does): every call is bound from the arguments as they are at that moment - a corruption introduced by an edit is
    refused, a changed value is what goes out"""
    import io
    import zeep
    import zeep.transports
    import requests
    sent = []

    class T(zeep.transports.Transport):
        def post(self, address, message, headers):
            sent.append(message)
            r = requests.Response()
            r.status_code = 200
            r.headers["Content-Type"] = "text/xml"
            r.encoding = "utf-8"
            r._content = b'<e:Envelope xmlns:e="http://schemas.xmlsoap.org/soap/envelope/"><e:Body><ack xmlns="urn:ed">ok</ack></e:Body></e:Envelope>'
            return r

    def body_of(message):
        return xmlcanon.node(etree.fromstring(message).find("{http://schemas.xmlsoap.org/soap/envelope/}Body"), strip_ws=True)
    for form in ("kwargs", "positional"):
        client = zeep.Client(io.BytesIO(EDIT_WSDL.encode()), transport=T())
        addr = {"street": "Main St", "zip": "1000"}
        lines = [{"sku": "a", "qty": 1}]
        steps = [("valid", lambda: None, "ok"),
                 ("value changed in place", lambda: addr.__setitem__("street", "Side St"), "ok"),
                 ("unknown key added in place", lambda: addr.__setitem__("zz_unknown", 1), "refuse"),
                 ("unknown key removed again", lambda: addr.pop("zz_unknown"), "ok"),
                 ("required member deleted in place", lambda: addr.pop("street"), "refuse"),
                 ("required member restored", lambda: addr.__setitem__("street", "Back St"), "ok"),
                 ("list grown past maxOccurs in place", lambda: lines.extend([{"sku": "b", "qty": 2}, {"sku": "c", "qty": 3}, {"sku": "d", "qty": 4}]), "refuse"),
                 ("list cut back in place", lambda: lines.__delitem__(slice(2, None)), "ok"),
                 ("misspelt key inside a list item", lambda: lines[1].__setitem__("qtty", lines[1].pop("qty")), "refuse")]
        for i, (what, edit, expect) in enumerate(steps):
            edit()
            res.case(key=("inplace-edit", form, i), nontrivial=True)
            res.count("inplace-edit-history")
            case = dict(kind="inplace-edit", form=form, step=i, what=what, addr=repr(addr), lines=repr(lines))
            del sent[:]
            try:
                if form == "kwargs":
                    client.service.order(id="7", addr=addr, line=lines)
                else:
                    client.service.order("7", addr, lines)
                out = "ok"
            except Exception as e:  # noqa
                out = type(e).__name__
            if expect == "refuse" and out == "ok":
                res.failures.append(dict(what="step %d (%s): the arguments as edited in place are corrupt, but a request was sent: %s"
                                         % (i, what, sent[0].decode()[:400] if sent else ""), case=case))
                break
            if expect == "ok":
                if out != "ok":
                    res.failures.append(dict(what="step %d (%s): a conforming call is refused with %s" % (i, what, out), case=case))
                    break
                fresh_sent = list(sent)
                del sent[:]
                fresh = zeep.Client(io.BytesIO(EDIT_WSDL.encode()), transport=T())
                fresh.service.order(id="7", addr=copy.deepcopy(addr), line=copy.deepcopy(lines))
                if body_of(fresh_sent[0]) != body_of(sent[0]):
                    res.failures.append(dict(what="step %d (%s): the request does not carry the arguments as they are now: %s" % (i, what, fresh_sent[0].decode()[:400]), case=case))
                    break


def run(ctx):
    import logging
    logging.getLogger("zeep").setLevel(logging.CRITICAL)
    res = Result()
    pending = []
    hand_cases(ctx, res)
    inplace_edit_history(ctx, res)
    hand_cases2(ctx, res)
    nillable_spelling_cases(ctx, res)
    kwtie.kw_tie(ctx, res, ctx.model.run if ctx.model else None)
    kwtie.kwrecord_tie(ctx, res, ctx.model.run if ctx.model else None)
    n = ctx.n(120, 2000)
    for i in range(n):
        seed = ctx.seed * 100000 + i
        try:
            case = bcase(seed, with_choice=(i % 3 == 2))
        except etree.XMLSchemaParseError:
            res.count("schema-rejected-by-libxml2")
            continue
        res.programs += 1
        one_schema(ctx, res, case, pending, 2)
    compare_model(ctx, res, pending)
    if pending:
        res.sample(dict(xsd=pending[0][3]["xsd"][:600], call=str(pending[0][3]["call"])[:400]))
    res.rule = ("record schemas (sequences of leaf / record elements with every occurrence class, nillable, one repeated sequence per type, "
                "attributes required / optional; a third of the schemas with non-repeating choices) x 2 conforming values x {dict, value objects, "
                "mix, positional prefix} + up to two single-point corruptions of every kind that applies. distinct = distinct (schema, value)")
    return res


def search(ctx):
    return run(ctx)


def replay(ctx, payload):
    if payload.get("case", payload).get("kind") == "kw":
        c = payload.get("case", payload)
        import zeep.xsd
        from zeep.xsd.valueobjects import _process_signature
        items = [(k, x) for k, x in c["items"]]
        kw = [(k, v) for k, v in c["kw"]]
        zs = zeep.xsd.Schema(etree.fromstring(kwtie.kw_schema(items, c["attrs"]).encode()))
        try:
            got, out = dict(_process_signature(zs.get_element("{urn:kw}sig").type, (), dict(kw))), "accept"
        except TypeError as e:
            got, out = str(e)[:80], "refuse"
        exp = kwtie.kw_expect(items, c["attrs"], kw)
        ok = out == exp and (out == "refuse" or all(got.get(k) == v for k, v in kw if not (v is None or v == [])))
        if ok and out == "accept" and not any(v == [] for _, v in kw):
            # the rendering side: the XML of every choice is the data the caller gave for it (or a ValidationError)
            el = zs.get_element("{urn:kw}sig")
            try:
                parent = etree.Element("p")
                el.render(parent, el(**dict(kw)))
                for kind, x in items:
                    if kind == "choice":
                        cnames = [kwtie.nm(m) for b in x for m in b]
                        r = {etree.QName(ch).localname: ch.text or "" for ch in parent[0] if etree.QName(ch).localname in cnames}
                        if r != {k: v for k, v in kw if v is not None and k in cnames}:
                            return False, "the XML of a choice is not the data given for it: %r" % (r,)
            except Exception:  # noqa
                pass
        return ok, "keyword call %s (expected %s): %r" % (out, exp, got)
    if payload.get("case", payload).get("kind") == "inplace-edit":
        r = Result()
        inplace_edit_history(ctx, r)
        return (not r.failures), (r.failures[0]["what"] if r.failures else "holds")
    if payload.get("case", payload).get("probe") == "nillable-spelling":
        r = Result()
        nillable_spelling_cases(ctx, r)
        c = payload.get("case", payload)
        bad = [f for f in r.failures if all(f["case"][k] == c[k] for k in ("spelling", "member", "how"))]
        return (not bad), "nillable spelling rerun: %s" % (bad[0]["what"] if bad else "holds")
    if payload.get("case", payload).get("kind") == "hand2":
        r = Result()
        hand_cases2(ctx, r)
        nillable_spelling_cases(ctx, r)
        c = payload.get("case", payload)
        bad = [f for f in r.failures if f["case"]["element"] == c["element"] and f["case"]["convention"] == c["convention"] and f["case"]["kwargs"] == c["kwargs"]]
        return (not bad), "hand-written case rerun: %s" % (bad[0]["what"] if bad else "holds")
    if payload.get("case", payload).get("kind") == "hand":
        r = Result()
        hand_cases(ctx, r)
        c = payload.get("case", payload)
        bad = [f for f in r.failures if f["case"]["element"] == c["element"] and f["case"]["args"] == c["args"] and f["case"]["kwargs"] == c["kwargs"]]
        return (not bad), "hand-written case rerun: %s" % (bad[0]["what"] if bad else "holds")
    """re-run the recorded schema and value; the verdict is whether that (schema, value) still has a failure of the recorded kind"""
    c = payload.get("case", payload)
    case = bcase(c["seed"], c["profile"].endswith("choice"))
    res = Result()

    class One:
        pass
    st_index = c["index"]
    # run exactly the recorded value
    pending = []
    orig_value = case.value
    case.value = lambda j: orig_value(st_index)
    one_schema(ctx, res, case, pending, 1)
    call = c.get("call", {})
    key = call.get("corruption") or call.get("convention")
    hits = [f for f in res.failures if (f["case"]["call"].get("corruption") or f["case"]["call"].get("convention")) == key]
    if hits:
        return False, hits[0]["what"]
    return True, "the recorded call (%s) is now handled as the property requires" % key


def replay_finding(ctx, finding):
    return False
