"""C14 — force_https: tie between lean/ZeepModel/Url.lean and zeep's location handling."""
import io
import itertools
from urllib.parse import urljoin, urlparse, urlunparse

from harness.core import Result, corpus_cases, load_known

LEAN_MODULES = ["ZeepProofs.C14"]
NS = "Zeep.Url."
THEOREMS = [NS + t for t in (
    "c14_rewrite", "c14_rewrite_only_http", "c14_never_downgrades", "c14_off_is_identity", "c14_decision",
    "c14_address_https", "c14_normalize_upgrades", "c14_normalize_other_host", "c14_reference_kinds",
)]
LEVEL = "proof"
MANIFEST = dict(
    engine="U: lean/ZeepModel/Url.lean + lean/Generated/Sites.lean",
    technique="Lean 4 proofs about the rewrite on every well-formed netloc (last-colon argument, IPv6 and userinfo included), decision logic stated outright, a `decide` obligation over the call-site inventory regenerated from the source + exhaustive grid tie through a recording transport",
    text="c14_rewrite proves for all userinfo/host/port/path/query that an http address becomes https with :80 dropped and everything else preserved; never-downgrade, off-is-identity and the rewrite decision are proved outright; c14_reference_kinds is re-checked on every run against the regenerated inventory of functions that load referenced documents. The model is tied to url_http_to_https / normalize_location / Port.resolve function-by-function on a URL-shape grid and end-to-end by loading generated WSDLs (all reference kinds x URL shapes x WSDL schemes x force on/off) through a recording transport.",
    note="Trusted: Lean kernel + standard axioms; urllib.parse.urlparse/urlunparse/urljoin (the model works on the six-field record they produce); the AST translator call_sites.py. Known finding K5 (same host, different netloc text) is listed in known_findings.json.",
    design_ref="DESIGN.md section 6, C14",
)
TRUSTED = ["urllib.parse urlparse/urlunparse/urljoin", "harness/translators/call_sites.py (AST inventory)"]
ASSUMPTIONS = ["the transport is the only way documents are fetched and requests are sent (recording transport subclass)"]


def _zeep():
    import zeep
    import zeep.loader
    import zeep.wsdl.utils
    import zeep.settings
    import zeep.transports
    return zeep


# ------------------------------------------------------------------ function-level grid

NETLOCS = ["h.example", "h.example:80", "h.example:443", "h.example:8080", "u@h.example", "u:p@h.example:80",
           "u:80@h.example", "[::1]", "[::1]:80", "[::80]", "H.Example:80", "h.example:080", "h.example:", ""]
SCHEMES = ["http", "https", "HTTP", "Http", "ftp", "file", ""]
PATHS = ["", "/svc", "/a/b;par", "/a%20b/"]
QUERIES = ["", "x=1&y=2"]
FRAGS = ["", "frag"]


def url_grid():
    for sc, nl, pa, q, f in itertools.product(SCHEMES, NETLOCS, PATHS, QUERIES, FRAGS):
        if sc == "" and nl:
            u = "//" + nl + pa
        elif sc == "":
            u = pa
        else:
            u = sc + "://" + nl + pa
        if q:
            u += "?" + q
        if f:
            u += "#" + f
        yield u


def six(u):
    return list(urlparse(u))


def ref_http_to_https(value):
    """independent reference of the statement: http -> https, default port 80 dropped, rest preserved"""
    import re
    m = re.match(r"^([A-Za-z][A-Za-z0-9+.\-]*):(//([^/?#]*))?(.*)$", value, re.S)
    if not m or m.group(1).lower() != "http":
        return None          # not an http url: must be left as it is
    netloc = m.group(3) or ""
    rest = m.group(4)
    hostport = netloc.rsplit("@", 1)[-1]
    if hostport.endswith(":80") and not hostport.endswith("]:80]"):
        netloc = netloc[:-3]
    return "https://" + netloc + rest


def function_grid(ctx, res):
    z = _zeep()
    f = z.wsdl.utils.url_http_to_https
    urls = sorted(set(url_grid()))
    mout = ctx.model.run([{"op": "url.http_to_https", "url": six(u)} for u in urls]) if ctx.model else [None] * len(urls)
    for u, mo in zip(urls, mout):
        got = f(u)
        res.case(key=("h2h", u), nontrivial=True)
        res.count("fn:url_http_to_https")
        exp = ref_http_to_https(u)
        ok = True
        if exp is None:
            ok = (got == u)
        else:
            # compare after parsing, so that urlunparse normalisations ('' vs missing '//') are not an issue
            ok = urlparse(got) == urlparse(exp) and urlparse(got).scheme == "https"
        if not ok:
            res.failures.append(dict(what="url_http_to_https: not (https, :80 dropped, rest preserved / non-http untouched)",
                                     case=dict(kind="h2h", url=u), expected=exp or u, got=got))
        elif mo is not None:
            mu = None if "err" in mo else urlunparse(mo["ok"])
            p = urlparse(u)
            impl_cmp = got if p.scheme == "http" else urlunparse(p)
            if mu is None or (mu != impl_cmp):
                res.disagreements.append(dict(relation="Url.httpToHttps vs url_http_to_https", case=dict(url=u), model=mu, impl=got))
    res.sample(dict(kind="h2h", url=urls[len(urls) // 3], got=f(urls[len(urls) // 3])))
    # normalize_location
    nl = z.loader.normalize_location
    bases = ["https://h.example/a/root.wsdl", "http://h.example/a/root.wsdl", "https://h.example:443/root.wsdl",
             "https://u@h.example/r.wsdl", "HTTPS://h.example/r.wsdl", "file:///tmp/x/root.wsdl", "https://[::1]/r.wsdl"]
    refs = ["http://h.example/x.xsd", "https://h.example/x.xsd", "http://h.example:80/x.xsd", "http://h.example:8080/x.xsd",
            "http://other.example/x.xsd", "x.xsd", "../x.xsd?q=1", "/abs/x.xsd", "http://u@h.example/x.xsd",
            "HTTP://h.example/x.xsd", "http://H.EXAMPLE/x.xsd", "http://h.example:443/x.xsd", "http://[::1]/x.xsd"
            ]
    cases = [(fh, b, r) for fh in (True, False) for b in bases for r in refs]
    mops = []
    for fh, b, r in cases:
        absu = absolute(r, b)
        mops.append({"op": "url.normalize", "force": fh, "base": six(b), "url": six(absu)})
    mout = ctx.model.run(mops) if ctx.model else [None] * len(cases)
    for (fh, b, r), mo in zip(cases, mout):
        st = z.settings.Settings(force_https=fh)
        got = nl(st, r, b)
        res.case(key=("norm", fh, b, r), nontrivial=True)
        res.count("fn:normalize_location")
        fail = judge_reference(fh, b, r, got)
        if fail:
            fail["case"] = dict(kind="norm", force=fh, base=b, ref=r)
            res.failures.append(fail)
        if mo is not None:
            mu = None if "err" in mo else urlunparse(mo["ok"])
            absu = absolute(r, b)
            impl_cmp = got if got != absu else urlunparse(urlparse(absu))
            if mu != impl_cmp:
                res.disagreements.append(dict(relation="Url.normalize vs normalize_location",
                                              case=dict(force=fh, base=b, ref=r), model=mu, impl=got))


def absolute(ref, base):
    if ref == base:
        return ref
    if urlparse(ref).scheme in ("http", "https", "file"):
        return ref
    return urljoin(base, ref)


def judge_reference(force, base, ref, fetched):
    """the property for a referenced document; returns a failure dict or None.  Failures in the
    class of known finding K5 (same host, netloc text differs) are tagged known."""
    absu = absolute(ref, base)
    bp, ap, fp = urlparse(base), urlparse(absu), urlparse(fetched)
    if ap.scheme == "https" and fp.scheme != "https":
        return dict(what="https location downgraded", expected=absu, got=fetched)
    if not force or bp.scheme != "https":
        if fetched != absu:
            return dict(what="location changed although force_https is off / referring document is not https",
                        expected=absu, got=fetched)
        return None
    same_host = (bp.hostname or "").lower() == (ap.hostname or "").lower() and bp.hostname is not None
    if same_host and ap.scheme == "http":
        if fp.scheme != "https":
            f = dict(what="same-host reference of an https document fetched over http", expected="https://…", got=fetched)
            if bp.netloc != ap.netloc:
                f["known"] = "K5"
            return f
        if (fp.hostname, fp.path, fp.params, fp.query, fp.fragment, fp.username, fp.password) != \
                (ap.hostname, ap.path, ap.params, ap.query, ap.fragment, ap.username, ap.password):
            return dict(what="upgraded location lost a component", expected=absu, got=fetched)
        return None
    if fetched != absu and not (same_host and fp._replace(scheme="x") == ap._replace(scheme="x")):
        return dict(what="other-host / non-http location changed", expected=absu, got=fetched)
    return None


# ------------------------------------------------------------------ end-to-end grid

WSDL = """<?xml version="1.0"?>
<definitions xmlns="http://schemas.xmlsoap.org/wsdl/" xmlns:soap="http://schemas.xmlsoap.org/wsdl/soap/"
  xmlns:soap12="http://schemas.xmlsoap.org/wsdl/soap12/" xmlns:http="http://schemas.xmlsoap.org/wsdl/http/"
  xmlns:xsd="http://www.w3.org/2001/XMLSchema" xmlns:tns="urn:t" xmlns:o="urn:other" targetNamespace="urn:t">
  %(wsdl_import)s
  <types>
    <xsd:schema targetNamespace="urn:t" elementFormDefault="qualified">
      %(xsd_import)s
      %(xsd_include)s
      <xsd:element name="in" type="xsd:string"/>
      <xsd:element name="out" type="xsd:string"/>
    </xsd:schema>
  </types>
  <message name="mi"><part name="p" element="tns:in"/></message>
  <message name="mo"><part name="p" element="tns:out"/></message>
  <portType name="pt"><operation name="op"><input message="tns:mi"/><output message="tns:mo"/></operation></portType>
  <binding name="b11" type="tns:pt">
    <soap:binding style="document" transport="http://schemas.xmlsoap.org/soap/http"/>
    <operation name="op"><soap:operation soapAction="a"/><input><soap:body use="literal"/></input><output><soap:body use="literal"/></output></operation>
  </binding>
  <binding name="b12" type="tns:pt">
    <soap12:binding style="document" transport="http://schemas.xmlsoap.org/soap/http"/>
    <operation name="op"><soap12:operation soapAction="a"/><input><soap12:body use="literal"/></input><output><soap12:body use="literal"/></output></operation>
  </binding>
  <binding name="bh" type="tns:pt">
    <http:binding verb="POST"/>
    <operation name="op"><http:operation location="/op"/><input><mime:content xmlns:mime="http://schemas.xmlsoap.org/wsdl/mime/" type="application/x-www-form-urlencoded"/></input><output><mime:mimeXml xmlns:mime="http://schemas.xmlsoap.org/wsdl/mime/" part="p"/></output></operation>
  </binding>
  <service name="svc">
    <port name="p11" binding="tns:b11"><soap:address location="%(addr)s"/></port>
    <port name="p12" binding="tns:b12"><soap12:address location="%(addr)s"/></port>
    <port name="ph" binding="tns:bh"><http:address location="%(addr)s"/></port>
  </service>
</definitions>"""

IMPORTED_WSDL = """<?xml version="1.0"?>
<definitions xmlns="http://schemas.xmlsoap.org/wsdl/" xmlns:xsd="http://www.w3.org/2001/XMLSchema"
  targetNamespace="urn:other">
  <types><xsd:schema targetNamespace="urn:other">%(chain)s<xsd:element name="oe" type="xsd:string"/></xsd:schema></types>
</definitions>"""
IMPORTED_XSD = """<?xml version="1.0"?>
<xsd:schema xmlns:xsd="http://www.w3.org/2001/XMLSchema" targetNamespace="urn:imp"><xsd:element name="ie" type="xsd:string"/></xsd:schema>"""
INCLUDED_XSD = """<?xml version="1.0"?>
<xsd:schema xmlns:xsd="http://www.w3.org/2001/XMLSchema" targetNamespace="urn:t"><xsd:element name="ince" type="xsd:string"/></xsd:schema>"""
CHAIN_XSD = """<?xml version="1.0"?>
<xsd:schema xmlns:xsd="http://www.w3.org/2001/XMLSchema" targetNamespace="urn:other"><xsd:element name="ce" type="xsd:string"/></xsd:schema>"""


SECOND = {
    # container kind -> allowed second-hop kinds
    "wsdl:import": ["xsd:include", "xsd:import", "wsdl:import"],
    "xsd:import": ["xsd:include", "xsd:import"],
    "xsd:include": ["xsd:include", "xsd:import"],
}
TNS = {"wsdl:import": "urn:other", "xsd:import": "urn:imp", "xsd:include": "urn:t"}
FILE1 = {"wsdl:import": "imp.wsdl", "xsd:import": "imp.xsd", "xsd:include": "inc.xsd"}
FILE2 = {"wsdl:import": "imp2.wsdl", "xsd:import": "imp2.xsd", "xsd:include": "inc2.xsd"}


def ref_markup(kind, url, ns):
    if kind == "wsdl:import":
        return '<import xmlns="http://schemas.xmlsoap.org/wsdl/" namespace="%s" location="%s"/>' % (ns, url)
    if kind == "xsd:import":
        return '<xsd:import namespace="%s" schemaLocation="%s"/>' % (ns, url)
    return '<xsd:include schemaLocation="%s"/>' % url


def container_doc(kind, tns, inner_kind=None, inner_markup=""):
    """a document of the given kind (a WSDL or a schema) holding an optional further reference"""
    if kind == "wsdl:import":
        w = inner_markup if inner_kind == "wsdl:import" else ""
        x = inner_markup if inner_kind in ("xsd:import", "xsd:include") else ""
        return ('<?xml version="1.0"?><definitions xmlns="http://schemas.xmlsoap.org/wsdl/" '
                'xmlns:xsd="http://www.w3.org/2001/XMLSchema" targetNamespace="%s">%s<types><xsd:schema targetNamespace="%s">'
                '%s<xsd:element name="e_%s" type="xsd:string"/></xsd:schema></types></definitions>'
                % (tns, w, tns, x, abs(hash(tns)) % 1000))
    return ('<?xml version="1.0"?><xsd:schema xmlns:xsd="http://www.w3.org/2001/XMLSchema" targetNamespace="%s">%s'
            '<xsd:element name="e_%s_%s" type="xsd:string"/></xsd:schema>' % (tns, inner_markup, kind[-3:], abs(hash(tns + kind)) % 1000))


def make_transport(docs, flaky=False):
    z = _zeep()

    class Rec(z.transports.Transport):
        def __init__(self):
            super().__init__()
            self.loads = []
            self.posts = []
            self.failed_once = set()

        def load(self, url):
            self.loads.append(url)
            name = urlparse(url).path.rsplit("/", 1)[-1]
            if flaky and name != "root.wsdl" and name not in self.failed_once:
                self.failed_once.add(name)          # a transient fault on the first fetch of every referenced document
                raise OSError("connection reset while fetching " + url)
            if name not in docs:
                raise IOError("no such document " + url)
            return docs[name].encode()

        def post(self, address, message, headers):
            self.posts.append(address)
            raise StopPost()

        def get(self, address, params, headers):
            self.posts.append(address)
            raise StopPost()
    return Rec()


class StopPost(Exception):
    pass


REF_SHAPES = [
    ("same-http", "http://h.example/d/%s"), ("same-https", "https://h.example/d/%s"),
    ("same-http-80", "http://h.example:80/d/%s"), ("same-http-8080", "http://h.example:8080/d/%s"),
    ("other-http", "http://other.example/d/%s"), ("relative", "sub/%s"), ("same-userinfo", "http://u:p@h.example/d/%s"),
    ("same-upper", "HTTP://H.EXAMPLE/d/%s"), ("same-query", "http://h.example/d/%s?v=1"),
    ("other-https", "https://other.example/d/%s"),
]
ADDR_SHAPES = ["http://h.example/svc", "http://h.example:80/svc?x=1#f", "http://h.example:8080/svc", "https://h.example/svc",
               "http://u:p@h.example:80/svc", "http://[::1]:80/svc", "http://[::80]/svc", "HTTP://h.example/svc",
               "http://other.example:443/svc", "http://h.example:80", "/relative/svc"]
WSDL_LOCS = [("https", "https://h.example/w/root.wsdl"), ("http", "http://h.example/w/root.wsdl"),
             ("HTTPS", "HTTPS://h.example/w/root.wsdl"), ("https-port", "https://h.example:8443/w/root.wsdl"),
             ("stream", None)]


def expected_address(force, wsdl_loc, addr):
    over_https = wsdl_loc is not None and urlparse(wsdl_loc).scheme == "https"
    if not (force and over_https):
        return ("exact", addr)
    r = ref_http_to_https(addr)
    if r is None:
        return ("exact", addr)
    return ("parsed", r)


def e2e_case(ctx, res, force, wname, wloc, kind, shape, addr, flaky=False):
    z = _zeep()
    sname, tmpl = shape
    docs = {}
    sub = dict(wsdl_import="", xsd_import="", xsd_include="", addr=addr.replace("&", "&amp;"))
    refname = None
    first = None
    slot = {"wsdl:import": "wsdl_import", "xsd:import": "xsd_import", "xsd:include": "xsd_include"}
    if kind in slot:
        refname = FILE1[kind]
        docs[refname] = container_doc(kind, TNS[kind])
        sub[slot[kind]] = ref_markup(kind, tmpl % refname, TNS[kind])
    elif kind.startswith("chain:"):
        # root --k1 (first-hop url shape s1)--> FILE1[k1] --k2 (shape under test)--> FILE2[k2]
        _, k1, s1, k2 = kind.split("|")
        first = FILE1[k1]
        refname = FILE2[k2]
        tns2 = TNS[k1] if k2 == "xsd:include" else TNS[k1] + ":second"
        docs[refname] = container_doc(k2, tns2)
        docs[first] = container_doc(k1, TNS[k1], k2, ref_markup(k2, tmpl % refname, tns2))
        t1 = dict(REF_SHAPES)[s1]
        sub[slot[k1]] = ref_markup(k1, t1 % first, TNS[k1])
    docs["root.wsdl"] = WSDL % sub
    tr = make_transport(docs, flaky)
    st = z.settings.Settings(force_https=force)
    key = (force, wname, kind, sname, addr, flaky)
    res.case(key=key, nontrivial=True)
    res.count("e2e:" + kind.replace("|same-http", "").replace("|relative", "").replace("|other-https", "|via-other-host"))
    res.count("wsdl:" + wname)
    try:
        if wloc is None:
            client = z.Client(io.BytesIO(docs["root.wsdl"].encode()), transport=tr, settings=st)
        else:
            client = z.Client(wloc, transport=tr, settings=st)
    except IOError as e:
        if flaky and refname and wloc is not None:
            # the load failed (as it should after a transient fault, or was retried): whatever was requested for the referenced
            # document must still respect the property -- a retry must not fall back to the declared plain-http location
            res.count("e2e:transient-fault")
            case = dict(kind="e2e", force=force, wsdl=wloc, ref_kind=kind, ref_shape=sname, addr=addr, transient_fault=True)
            for fu in [u for u in tr.loads if urlparse(u).path.endswith(refname)]:
                fail = judge_reference(force, wloc, tmpl % refname, fu)
                if fail:
                    fail["case"] = case
                    res.failures.append(fail)
            return
        # relative reference of a stream WSDL cannot be resolved: not part of the property
        res.count("e2e:unresolvable")
        return
    case = dict(kind="e2e", force=force, wsdl=wloc, ref_kind=kind, ref_shape=sname, addr=addr)
    # referenced documents
    if refname and wloc is not None:
        fetched = [u for u in tr.loads if urlparse(u).path.endswith(refname)]
        base = wloc
        if first:
            base = [u for u in tr.loads if urlparse(u).path.endswith(first)][0]
        for fu in fetched:
            fail = judge_reference(force, base, tmpl % refname, fu)
            if fail:
                fail["case"] = case
                res.failures.append(fail)
            # model
            absu = absolute(tmpl % refname, base)
            PENDING.append(({"op": "url.normalize", "force": force, "base": six(base), "url": six(absu)},
                            fu if fu != absu else urlunparse(urlparse(absu)), "Url.normalize vs fetched location", case))
        if not fetched:
            res.failures.append(dict(what="referenced document never requested", case=case))
    # addresses: what the operation is posted to
    for port in ("p11", "p12", "ph"):
        svc = client.bind("svc", port)
        tr.posts.clear()
        try:
            svc.op("x") if port != "ph" else svc.op(p="x")
        except StopPost:
            pass
        except Exception as e:  # noqa
            res.count("e2e:call-error:" + type(e).__name__)
            continue
        if not tr.posts:
            continue
        posted = tr.posts[0]
        if port == "ph":
            # http binding appends the operation location
            if posted.endswith("/op"):
                posted = posted[:-3]
        mode, exp = expected_address(force, wloc, addr)
        ok = posted == exp if mode == "exact" else (urlparse(posted) == urlparse(exp))
        res.count("addr:" + ("rewritten" if posted != addr else "asis"))
        if not ok:
            res.failures.append(dict(what="operation posted to an address other than the property requires (port %s)" % port,
                                     case=case, expected=exp, got=posted))
        ws = None if wloc is None else urlparse(wloc).scheme
        PENDING.append(({"op": "url.port", "force": force, "wsdl_scheme": ws, "addr": six(addr)},
                        posted if posted != addr else urlunparse(urlparse(addr)), "Url.portAddress vs posted address", case))


def foreign_address_cases(ctx, res):
    """a port whose address element belongs to the *other* SOAP binding namespace (soap:address under a SOAP 1.2 binding and
    the reverse): if a request is sent at all under force_https from an https WSDL, it does not go to the declared http URL"""
    z = _zeep()
    for a11, a12, label in (("soap12", "soap", "swapped"), ("soap", "soap", "both-1.1"), ("soap12", "soap12", "both-1.2")):
        for addr in ("http://h.example/svc", "http://u:p@h.example:80/svc?x=1"):
            text = (WSDL % dict(wsdl_import="", xsd_import="", xsd_include="", addr=addr.replace("&", "&amp;")))
            text = text.replace('<port name="p11" binding="tns:b11"><soap:address', '<port name="p11" binding="tns:b11"><%s:address' % a11)
            text = text.replace('<port name="p12" binding="tns:b12"><soap12:address', '<port name="p12" binding="tns:b12"><%s:address' % a12)
            tr = make_transport({"root.wsdl": text})
            res.case(key=("foreign-address", label, addr), nontrivial=True)
            res.count("e2e:foreign-address")
            case = dict(kind="foreign-address", layout=label, addr=addr)
            try:
                client = z.Client("https://h.example/w/root.wsdl", transport=tr, settings=z.settings.Settings(force_https=True))
            except Exception:  # noqa
                continue
            for port in ("p11", "p12"):
                tr.posts.clear()
                try:
                    client.bind("svc", port).op("x")
                except StopPost:
                    pass
                except Exception:  # noqa
                    continue
                for posted in tr.posts:
                    if urlparse(posted).scheme != "https":
                        res.failures.append(dict(what="with force_https and an https WSDL a request was posted over plain http (port %s, address element of "
                                                      "the other SOAP version)" % port, case=case, got=posted))


PENDING = []


def flush_pending(ctx, res):
    if ctx.model and PENDING:
        outs = ctx.model.run([p[0] for p in PENDING])
        for (mop, impl_cmp, rel, case), mo in zip(PENDING, outs):
            mu = None if "err" in mo else urlunparse(mo["ok"])
            if mu != impl_cmp:
                res.disagreements.append(dict(relation=rel, case=case, model=mu, impl=impl_cmp))
    del PENDING[:]


def run(ctx):
    res = Result()
    del PENDING[:]
    function_grid(ctx, res)
    kinds = ["wsdl:import", "xsd:import", "xsd:include"]
    chains = ["chain:|%s|%s|%s" % (k1, s1, k2) for k1 in SECOND for s1 in ("same-http", "relative", "other-https") for k2 in SECOND[k1]]
    n = 0
    combos = []
    for force in (True, False):
        for wname, wloc in WSDL_LOCS:
            for kind in kinds:
                for shape in REF_SHAPES:
                    combos.append((force, wname, wloc, kind, shape, ADDR_SHAPES[n % len(ADDR_SHAPES)]))
                    n += 1
            if wname in ("https", "http", "HTTPS") or ctx.tier == "thorough":
                for kind in chains:
                    for shape in REF_SHAPES:
                        combos.append((force, wname, wloc, kind, shape, ADDR_SHAPES[n % len(ADDR_SHAPES)]))
                        n += 1
            for addr in ADDR_SHAPES:
                combos.append((force, wname, wloc, "none", ("none", "%s"), addr))
    if ctx.tier == "quick" and ctx.budget <= 1:
        # the whole reference grid, addresses rotated; still exhaustive in kind x shape x scheme x force
        pass
    import logging
    logging.getLogger("zeep").setLevel(logging.ERROR)
    for c in combos:
        e2e_case(ctx, res, *c)
    foreign_address_cases(ctx, res)
    # transient faults: the first fetch of every referenced document fails
    n = 0
    for wname, wloc in WSDL_LOCS[:3]:
        for kind in kinds:
            for shape in REF_SHAPES:
                e2e_case(ctx, res, True, wname, wloc, kind, shape, ADDR_SHAPES[n % len(ADDR_SHAPES)], flaky=True)
                n += 1
    flush_pending(ctx, res)
    res.sample(dict(kind="e2e", force=True, wsdl="https://h.example/w/root.wsdl", ref_kind="xsd:include",
                    ref="http://h.example/d/inc.xsd"))
    # known findings attribution
    for f in res.failures:
        if f.get("known"):
            res.known_hits[f["known"]] = res.known_hits.get(f["known"], 0) + 1
    res.exhaustive = True
    res.programs = len(combos)
    res.rule = ("function grid: 7 schemes x 14 netloc shapes x 4 paths x 2 queries x 2 fragments through url_http_to_https; "
                "2 x 7 bases x 14 references through normalize_location; end-to-end: force on/off x 5 WSDL locations "
                "(https, http, HTTPS, https:8443, stream) x {wsdl:import, xsd:import, xsd:include} x 10 reference shapes, two-hop chains (3 first-hop kinds x 3 first-hop shapes - same host over http, relative, another host over https - x 2-3 second-hop kinds x 10 shapes; the referring document of the second hop is the first hop as fetched), "
                "plus 11 address shapes x 3 bindings, all through a recording transport. distinct = distinct grid point; every point is non-trivial")
    return res


def search(ctx):
    return run(ctx)


def replay(ctx, payload):
    case = payload.get("case", payload)
    z = _zeep()
    if case.get("kind") == "h2h":
        got = z.wsdl.utils.url_http_to_https(case["url"])
        exp = ref_http_to_https(case["url"])
        ok = (got == case["url"]) if exp is None else urlparse(got) == urlparse(exp)
        return ok, f"url_http_to_https({case['url']!r}) = {got!r}, expected {exp or case['url']!r}"
    if case.get("kind") == "norm":
        st = z.settings.Settings(force_https=case["force"])
        got = z.loader.normalize_location(st, case["ref"], case["base"])
        f = judge_reference(case["force"], case["base"], case["ref"], got)
        return (f is None or bool(f.get("known"))), f"normalize_location -> {got!r}: {f}"
    r = Result()
    shape = next((s for s in REF_SHAPES if s[0] == case["ref_shape"]), ("none", "%s"))
    wname = next((n for n, l in WSDL_LOCS if l == case["wsdl"]), "x")
    if case.get("kind") == "foreign-address":
        foreign_address_cases(ctx, r)
    else:
        e2e_case(ctx, r, case["force"], wname, case["wsdl"], case["ref_kind"], shape, case["addr"], flaky=bool(case.get("transient_fault")))
    bad = [f for f in r.failures if not f.get("known")]
    return (not bad), f"failures: {bad[:2]}"


def replay_finding(ctx, finding):
    z = _zeep()
    w = finding["witness"]
    st = z.settings.Settings(force_https=True)
    got = z.loader.normalize_location(st, w["ref"], w["base"])
    return urlparse(got).scheme != "https"
