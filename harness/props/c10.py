"""C10 — XML hardening on every ingress path: tie between lean/ZeepModel/Loader.lean and zeep."""
import itertools
import os
import shutil
import tempfile
from urllib.parse import urlparse

from harness.core import Result

LEAN_MODULES = ["ZeepProofs.C10"]
NS = "Zeep.Loader."
THEOREMS = [NS + t for t in (
    "c10_default_rejects_entities", "c10_forbid_entities", "c10_forbid_dtd_rejects_doctype", "c10_policy_total",
    "c10_settings_defaults", "c10_all_sites_via_loader", "c10_every_path", "c10_bare_counterexample",
)]
LEVEL = "proof"
MANIFEST = dict(
    engine="X: lean/ZeepModel/Loader.lean + lean/Generated/Sites.lean",
    technique="Lean 4 decision-table theorems over all 2^5 settings x document classes, and a `decide` obligation that every XML-parser call site of the inventory regenerated from the source goes through parse_xml with resolve_entities=False + exhaustive dynamic grid (ingress path x hostile document x 32 settings) with a recording transport and a canary file",
    text="The policy function is proved to reject entity-declaring documents under forbid_entities and any DOCTYPE under forbid_dtd for every combination of the other settings; c10_all_sites_via_loader is re-checked on every run against the regenerated inventory of places where bytes reach an XML parser (alias-aware AST scan) and of XMLParser keyword arguments. The dynamic grid drives every ingress path with every hostile variant under all 32 settings and compares the outcome class with the model, and checks that nothing external is ever requested or exposed.",
    note="Partial: that libxml2 never fetches or expands an external entity behind resolve_entities=False / no load_dtd is runtime behaviour of the C library - enforced by the canary and the transport log in the tie, not by a theorem. Trusted: the AST translator call_sites.py, lxml docinfo.",
    design_ref="DESIGN.md section 6, C10",
)
TRUSTED = ["libxml2/lxml: resolve_entities=False and absent load_dtd mean no external fetch (observed by canary + transport log only)",
           "harness/translators/call_sites.py (alias-aware AST inventory of parser call sites)"]
ASSUMPTIONS = ["external fetches can only happen through the transport, libxml2's own network/file I/O (canary file + unroutable host) - both observed"]

EVIL = "http://evil.example/"


def variants(canary_path):
    """name -> (doctype prolog, entity reference text, hasDoctype, declaresEntities)"""
    return {
        "benign": ("", "plain", False, False),
        "doctype-only": ("<!DOCTYPE r>", "plain", True, False),
        "internal-used": ('<!DOCTYPE r [<!ENTITY e "EXPANDED-INTERNAL">]>', "&e;", True, True),
        "internal-unused": ('<!DOCTYPE r [<!ENTITY e "EXPANDED-INTERNAL">]>', "plain", True, True),
        "parameter": ("<!DOCTYPE r [<!ENTITY % p \"<!ENTITY q 'EXPANDED-PARAM'>\"> %p;]>", "&q;", True, True),
        "ext-system-http": ('<!DOCTYPE r [<!ENTITY e SYSTEM "%sx.txt">]>' % EVIL, "&e;", True, True),
        "ext-system-file": ('<!DOCTYPE r [<!ENTITY e SYSTEM "file://%s">]>' % canary_path, "&e;", True, True),
        "ext-public": ('<!DOCTYPE r [<!ENTITY e PUBLIC "-//X//Y" "%sp.txt">]>' % EVIL, "&e;", True, True),
        "ext-dtd-http": ('<!DOCTYPE r SYSTEM "%sx.dtd">' % EVIL, "&ext;", True, False),
        "ext-dtd-file": ('<!DOCTYPE r SYSTEM "file://%s">' % canary_path, "plain", True, False),
        "nested": ('<!DOCTYPE r [<!ENTITY a "AAAA"><!ENTITY b "&a;&a;&a;"><!ENTITY c "&b;&b;&b;">]>', "&c;", True, True),
        "param-ext": ('<!DOCTYPE r [<!ENTITY %% p SYSTEM "%sp.dtd"> %%p;]>' % EVIL, "plain", True, True),
    }


ROOT = """<?xml version="1.0"?>%(prolog)s
<definitions xmlns="http://schemas.xmlsoap.org/wsdl/" xmlns:soap="http://schemas.xmlsoap.org/wsdl/soap/"
  xmlns:http="http://schemas.xmlsoap.org/wsdl/http/" xmlns:mime="http://schemas.xmlsoap.org/wsdl/mime/"
  xmlns:xsd="http://www.w3.org/2001/XMLSchema" xmlns:tns="urn:t" targetNamespace="urn:t">
  <documentation>%(ref)s</documentation>
  %(wsdl_import)s
  <types>
    <xsd:schema targetNamespace="urn:t" elementFormDefault="qualified" %(encns)s>
      %(xsd_import)s
      %(xsd_include)s
      <xsd:element name="in" type="xsd:string"/>
      <xsd:element name="out" type="xsd:string"/>
      %(enc_use)s
    </xsd:schema>
  </types>
  <message name="mi"><part name="p" element="tns:in"/></message>
  <message name="mo"><part name="p" element="tns:out"/></message>
  <message name="mot"><part name="p" type="xsd:string"/></message>
  <portType name="pt"><operation name="op"><input message="tns:mi"/><output message="tns:mo"/></operation></portType>
  <portType name="ptt"><operation name="op"><input message="tns:mi"/><output message="tns:mot"/></operation></portType>
  <binding name="b11" type="tns:pt">
    <soap:binding style="document" transport="http://schemas.xmlsoap.org/soap/http"/>
    <operation name="op"><soap:operation soapAction="a"/><input><soap:body use="literal"/></input><output><soap:body use="literal"/></output></operation>
  </binding>
  <binding name="bh" type="tns:pt">
    <http:binding verb="POST"/>
    <operation name="op"><http:operation location="/op"/><input><mime:content type="application/x-www-form-urlencoded"/></input><output><mime:mimeXml part="p"/></output></operation>
  </binding>
  <binding name="bc" type="tns:ptt">
    <http:binding verb="POST"/>
    <operation name="op"><http:operation location="/op"/><input><mime:content type="application/x-www-form-urlencoded"/></input><output><mime:content type="text/xml"/></output></operation>
  </binding>
  <service name="svc">
    <port name="p11" binding="tns:b11"><soap:address location="http://h.example/svc"/></port>
    <port name="ph" binding="tns:bh"><http:address location="http://h.example/h"/></port>
    <port name="pc" binding="tns:bc"><http:address location="http://h.example/c"/></port>
  </service>
</definitions>"""

SUBWSDL = """<?xml version="1.0"?>%(prolog)s
<definitions xmlns="http://schemas.xmlsoap.org/wsdl/" targetNamespace="urn:other"><documentation>%(ref)s</documentation></definitions>"""
SUBXSD = """<?xml version="1.0"?>%(prolog)s
<xsd:schema xmlns:xsd="http://www.w3.org/2001/XMLSchema" targetNamespace="%(tns)s"><xsd:annotation><xsd:documentation>%(ref)s</xsd:documentation></xsd:annotation><xsd:element name="sub%(n)s" type="xsd:string"/></xsd:schema>"""
ENVELOPE = """<?xml version="1.0"?>%(prolog)s
<soap:Envelope xmlns:soap="http://schemas.xmlsoap.org/soap/envelope/"><soap:Body><out xmlns="urn:t">%(ref)s</out></soap:Body></soap:Envelope>"""
MIMEXML = """<?xml version="1.0"?>%(prolog)s
<out xmlns="urn:t">%(ref)s</out>"""

PATHS = ["root-wsdl", "wsdl:import", "xsd:import", "xsd:include", "auto-import", "soap-reply", "soap-multipart-root",
         "http-mimexml-reply", "http-mimecontent-reply"]
ENC = "http://schemas.xmlsoap.org/soap/encoding/"
REPLY_PATHS = ("soap-reply", "soap-multipart-root", "http-mimexml-reply", "http-mimecontent-reply")


def _zeep():
    import zeep
    import zeep.exceptions
    import zeep.transports
    import zeep.settings
    return zeep


class Stop(Exception):
    pass


REPLY_STATUS = [200]


def make_transport(docs, reply):
    z = _zeep()
    import requests

    class Rec(z.transports.Transport):
        def __init__(self):
            super().__init__()
            self.loads = []
            self.evil = []
            self.docs = docs
            self.reply_fn = [reply]

        def load(self, url):
            self.loads.append(url)
            if "evil.example" in url or "canary" in url:
                self.evil.append(url)
                return b"<!ENTITY ext 'EVIL-EXTERNAL-CONTENT'>"
            if url == ENC:
                d = self.docs["enc.xsd"]
                return d if isinstance(d, bytes) else d.encode()
            name = urlparse(url).path.rsplit("/", 1)[-1]
            d = self.docs[name]
            return d if isinstance(d, bytes) else d.encode()

        def _resp(self):
            r = requests.Response()
            r.status_code = REPLY_STATUS[0]
            ctype, body = self.reply_fn[0]()
            r.headers["Content-Type"] = ctype
            r._content = body
            r.encoding = "utf-8"
            return r

        def post(self, address, message, headers):
            if "evil.example" in address:
                self.evil.append(address)
            return self._resp()

        def get(self, address, params, headers):
            return self._resp()
    return Rec()


def multipart(xml):
    b = "MIMEBOUNDARY123"
    raw = xml if isinstance(xml, bytes) else xml.encode()
    cs = "" if isinstance(xml, bytes) else "; charset=utf-8"
    body = (("--%s\r\nContent-Type: text/xml%s\r\nContent-ID: <root>\r\nContent-Transfer-Encoding: binary\r\n\r\n" % (b, cs)).encode() + raw +
            ("\r\n--%s\r\nContent-Type: application/octet-stream\r\nContent-ID: <att1>\r\nContent-Transfer-Encoding: binary\r\n\r\nATTACHMENT\r\n--%s--\r\n" % (b, b)).encode())
    return 'multipart/related; boundary="%s"; type="text/xml"; start="<root>"' % b, body


def classify(exc):
    z = _zeep()
    for name in ("DTDForbidden", "EntitiesForbidden", "XMLSyntaxError"):
        if isinstance(exc, getattr(z.exceptions, name)):
            return name
    # SOAP replies wrap syntax errors in TransportError
    if isinstance(exc, z.exceptions.TransportError):
        return "XMLSyntaxError"
    return "Other:" + type(exc).__name__


CARRIERS = {
    # not-well-formed carriers of a hostile document: the policy must still see the DOCTYPE / entity declarations, or the
    # document must be refused as a syntax error -- a lenient re-parse must not become a way around the policy
    "junk-prefix": lambda t: "PHP Notice:  Undefined index: q in /srv/ws.php on line 7\n" + t,
    "broken-subset": lambda t: t.replace("]>", "<!BROKEN>]>", 1) if "]>" in t else None,
    "trailing-junk": lambda t: t + "trailing<x>",
    "unclosed": lambda t: "<unclosed></".join(t.rsplit("</", 1)),
}
# well-formed carriers: the same document in an encoding whose bytes do not contain ASCII markers
ENCODINGS = {
    "utf-16": lambda t: t.replace('<?xml version="1.0"?>', '<?xml version="1.0" encoding="utf-16"?>', 1).encode("utf-16"),
    "utf-32": lambda t: t.replace('<?xml version="1.0"?>', '<?xml version="1.0" encoding="utf-32"?>', 1).encode("utf-32"),
    "utf-16-be-bom": lambda t: b"\xfe\xff" + t.replace('<?xml version="1.0"?>', '<?xml version="1.0" encoding="utf-16"?>', 1).encode("utf-16-be"),
}


def libxml2_tree(text, strict):
    """does libxml2 yield a tree for this text under the recover mode zeep chooses (DocInfo.wellFormed of the model)"""
    from lxml import etree
    try:
        r = etree.fromstring(text if isinstance(text, bytes) else text.encode(), etree.XMLParser(recover=not strict, resolve_entities=False, remove_comments=True))
        return r is not None
    except etree.XMLSyntaxError:
        return False


def run_case(path, vname, var, settings_bits, canary_secret, shared=None, carrier=None, texts=None):
    """returns (outcome class, evil urls requested, exposed?).  `shared` (a dict) carries a transport
    (and, for reply paths, a client) from an earlier load so that sequences share state."""
    z = _zeep()
    prolog, ref, has_dt, decl = var
    fd, fe, fx, strict, huge = settings_bits
    st = z.settings.Settings(forbid_dtd=fd, forbid_entities=fe, forbid_external=fx, strict=strict, xml_huge_tree=huge)
    benign = dict(prolog="", ref="plain")
    hostile = dict(prolog=prolog, ref=ref)

    def wrap(text):
        if carrier in ENCODINGS:
            text = ENCODINGS[carrier](text)
        elif carrier:
            text = CARRIERS[carrier](text)
        if texts is not None:
            texts.append(text)
        return text
    sub = dict(wsdl_import="", xsd_import="", xsd_include="", encns="", enc_use="")
    docs = {}
    if path == "wsdl:import":
        sub["wsdl_import"] = '<import namespace="urn:other" location="sub.wsdl"/>'
        docs["sub.wsdl"] = wrap(SUBWSDL % hostile)
    elif path == "xsd:import":
        sub["xsd_import"] = '<xsd:import namespace="urn:imp" schemaLocation="imp.xsd"/>'
        docs["imp.xsd"] = wrap(SUBXSD % dict(hostile, tns="urn:imp", n="1"))
    elif path == "xsd:include":
        sub["xsd_include"] = '<xsd:include schemaLocation="inc.xsd"/>'
        docs["inc.xsd"] = wrap(SUBXSD % dict(hostile, tns="urn:t", n="2"))
    elif path == "auto-import":
        sub["encns"] = 'xmlns:enc="%s"' % ENC
        sub["enc_use"] = '<xsd:element name="arr" type="enc:Array"/>'
        docs["enc.xsd"] = SUBXSD % dict(hostile, tns=ENC, n="3")
        docs["enc.xsd"] = docs["enc.xsd"].replace('<xsd:element name="sub3" type="xsd:string"/>',
                                                  '<xsd:complexType name="Array"><xsd:sequence><xsd:any minOccurs="0" maxOccurs="unbounded"/></xsd:sequence></xsd:complexType>')
        docs["enc.xsd"] = wrap(docs["enc.xsd"])
    rootsub = dict(sub)
    rootsub.update(hostile if path == "root-wsdl" else benign)
    docs["root.wsdl"] = ROOT % rootsub
    if path == "root-wsdl":
        docs["root.wsdl"] = wrap(docs["root.wsdl"])
    reply_doc = {"xml": None}

    def reply():
        x = reply_doc["xml"]
        if path == "soap-multipart-root":
            return multipart(x)
        return ("text/xml; charset=utf-8", x.encode()) if not isinstance(x, bytes) else ("text/xml", x)
    if shared is not None and "tr" in shared:
        tr = shared["tr"]
        tr.reply_fn[0] = reply
        tr.docs.clear()
        tr.docs.update(docs)
        del tr.evil[:]
    else:
        tr = make_transport(docs, reply)
        if shared is not None:
            shared["tr"] = tr
    result_repr = ""
    try:
        if shared is not None and path in REPLY_PATHS and "client" in shared:
            client = shared["client"]
        else:
            client = z.Client("http://h.example/w/root.wsdl", transport=tr,
                              settings=st if not (shared is not None and path in REPLY_PATHS) else z.settings.Settings())
            if shared is not None and path in REPLY_PATHS:
                shared["client"] = client
        if shared is not None and path in REPLY_PATHS:
            ctxm = client.settings(forbid_dtd=fd, forbid_entities=fe, forbid_external=fx, strict=strict, xml_huge_tree=huge)
        else:
            import contextlib
            ctxm = contextlib.nullcontext()
        ctxm.__enter__()
        if path in ("soap-reply", "soap-multipart-root"):
            reply_doc["xml"] = wrap(ENVELOPE % hostile)
            r = client.bind("svc", "p11").op("x")
            result_repr = repr(r) + repr(getattr(r, "root", "")) + repr(getattr(r, "attachments", ""))
        elif path == "http-mimexml-reply":
            reply_doc["xml"] = wrap(MIMEXML % hostile)
            r = client.bind("svc", "ph").op(p="x")
            result_repr = repr(r)
        elif path == "http-mimecontent-reply":
            reply_doc["xml"] = wrap(MIMEXML % hostile)
            r = client.bind("svc", "pc").op(p="x")
            result_repr = repr(r)
        else:
            import io
            import contextlib
            buf = io.StringIO()
            with contextlib.redirect_stdout(buf):
                client.wsdl.dump()
            result_repr = buf.getvalue()
        outcome = "accepted"
    except Exception as e:  # noqa
        outcome = classify(e)
        result_repr = "%s %r %r" % (e, getattr(e, "message", ""), getattr(e, "detail", ""))
    finally:
        try:
            ctxm.__exit__(None, None, None)
        except Exception:  # noqa
            pass
    # "AAAAAAAA": the nested variant's entities expand to runs of A that never occur literally in the document
    exposed = any(m in result_repr for m in (canary_secret, "EVIL-EXTERNAL-CONTENT", "AAAAAAAA"))
    return outcome, list(tr.evil), exposed


def expected_property(var, bits):
    """what the statement demands: 'reject' / 'any'"""
    prolog, ref, has_dt, decl = var
    fd, fe, fx, strict, huge = bits
    if fd and has_dt:
        return "reject"
    if fe and decl:
        return "reject"
    if not has_dt:
        return "accept"
    return "any"


def malformed_cases(ctx, res, vs, allbits, secret):
    """hostile documents in a carrier that is not well-formed, on every ingress path"""
    cases = []
    n = 0
    for path in PATHS:
        for vname, var in vs.items():
            if vname == "benign":
                continue
            for cname, fn in list(CARRIERS.items()) + list(ENCODINGS.items()):
                if cname in CARRIERS and fn(var[0] + "<r/>") is None:
                    continue
                for bits in allbits:
                    fd, fe, fx, strict, huge = bits
                    if ctx.tier == "quick" and ctx.budget <= 1 and (fx, huge) != ((n % 2 == 0), (n // 2 % 2 == 0)):
                        continue          # forbid_external / xml_huge_tree rotated, not crossed, in the quick tier
                    cases.append((path, vname, var, cname, bits))
                n += 1
    runs = []
    for path, vname, var, cname, bits in cases:
        texts = []
        outcome, evil, exposed = run_case(path, vname, var, bits, secret, carrier=cname, texts=texts)
        runs.append((outcome, evil, exposed, libxml2_tree(texts[-1], bits[3]) if texts else True))
    mops = [{"op": "loader.policy", "settings": list(bits), "doc": [wf, var[2], var[3]]}
            for (_, _, var, _, bits), (_, _, _, wf) in zip(cases, runs)]
    mout = ctx.model.run(mops) if ctx.model else [None] * len(cases)
    for (path, vname, var, cname, bits), (outcome, evil, exposed, wf), mo in zip(cases, runs, mout):
        res.case(key=("malformed", path, vname, cname, bits), nontrivial=True)
        res.count("carrier:" + cname)
        res.count("outcome:" + outcome)
        case = dict(path=path, variant=vname, carrier=cname,
                    settings=dict(zip(("forbid_dtd", "forbid_entities", "forbid_external", "strict", "xml_huge_tree"), bits)))
        exp = expected_property(var, bits)
        what = None
        if evil:
            what = "external entity / DTD target was requested: %s" % evil[:2]
        elif exposed:
            what = "content of an external resource / expanded entity reached the caller"
        elif exp == "reject" and outcome == "accepted":
            what = "hostile document (%s carrier) accepted although the policy forbids it" % cname
        if what:
            res.failures.append(dict(what=what, case=case, outcome=outcome))
        elif outcome.startswith("Other:") and mo is not None and mo.get("ok") == "accepted":
            res.count("recovered-tree-refused-downstream")       # the recovered tree passed the policy and was refused later (e.g. not a schema)
        elif mo is not None and mo.get("ok") != outcome:
            res.disagreements.append(dict(relation="Loader.policy vs zeep (outcome class, not-well-formed carrier)", case=case,
                                          model=mo.get("ok"), impl=outcome, libxml2_yields_tree=wf))


def error_status_cases(ctx, res, vs, secret):
    """hostile replies with an HTTP error status on every reply path: whatever is raised, nothing external is requested and
    no entity of the reply is expanded into what the caller gets (message, detail of the exception)"""
    combos = [(fd, fe, True, strict, False) for fd in (False, True) for fe in (False, True) for strict in (False, True)]
    for status in (500, 400, 202):
        REPLY_STATUS[0] = status
        try:
            for path in REPLY_PATHS:
                for vname in ("nested", "internal-used", "ext-system-file", "ext-system-http", "ext-dtd-http", "parameter"):
                    for bits in combos:
                        outcome, evil, exposed = run_case(path, vname, vs[vname], bits, secret)
                        res.case(key=("error-status", status, path, vname, bits), nontrivial=True)
                        res.count("error-status:%d" % status)
                        case = dict(path=path, variant=vname, status=status,
                                    settings=dict(zip(("forbid_dtd", "forbid_entities", "forbid_external", "strict", "xml_huge_tree"), bits)))
                        if evil:
                            res.failures.append(dict(what="external entity / DTD target was requested while handling an error reply: %s" % evil[:2], case=case, outcome=outcome))
                        elif exposed:
                            res.failures.append(dict(what="an entity of a hostile error reply was expanded into what the caller receives", case=case, outcome=outcome))
        finally:
            REPLY_STATUS[0] = 200


def run(ctx):
    res = Result()
    tmp = tempfile.mkdtemp(prefix="zeepverif-c10-")
    secret = "CANARY-SECRET-%d" % ctx.seed
    canary = os.path.join(tmp, "canary.txt")
    open(canary, "w").write(secret + "\n")
    import logging
    logging.getLogger("zeep").setLevel(logging.CRITICAL)
    try:
        vs = variants(canary)
        allbits = list(itertools.product([False, True], repeat=5))
        if ctx.tier == "quick" and ctx.budget <= 1:
            # all 32 combinations for the three policy-deciding paths x variants; the other paths get the 8
            # combinations of (forbid_dtd, forbid_entities, strict) with the remaining two rotated
            pass
        cases = []
        n = 0
        for path in PATHS:
            for vname, var in vs.items():
                for bits in allbits:
                    if False:
                        fd, fe, fx, strict, huge = bits
                        # rotate forbid_external / huge_tree instead of crossing them (they are not consulted)
                        if (fx, huge) != ((n % 2 == 0), (n // 2 % 2 == 0)):
                            continue
                    cases.append((path, vname, var, bits))
                n += 1
        mops = [{"op": "loader.policy", "settings": list(bits), "doc": [True, var[2], var[3]]} for _, _, var, bits in cases]
        mout = ctx.model.run(mops) if ctx.model else [None] * len(cases)
        for (path, vname, var, bits), mo in zip(cases, mout):
            outcome, evil, exposed = run_case(path, vname, var, bits, secret)
            res.case(key=(path, vname, bits), nontrivial=vname != "benign")
            res.count("path:" + path)
            res.count("outcome:" + outcome)
            case = dict(path=path, variant=vname, settings=dict(zip(("forbid_dtd", "forbid_entities", "forbid_external", "strict", "xml_huge_tree"), bits)))
            exp = expected_property(var, bits)
            what = None
            if evil:
                what = "external entity / DTD target was requested: %s" % evil[:2]
            elif exposed:
                what = "content of an external resource reached the caller"
            elif exp == "reject" and outcome == "accepted":
                what = "hostile document accepted although the policy forbids it"
            elif exp == "accept" and outcome != "accepted":
                what = "benign document rejected (%s)" % outcome
            elif outcome.startswith("Other:"):
                what = "unexpected error class " + outcome
            if what:
                res.failures.append(dict(what=what, case=case, outcome=outcome))
            elif mo is not None:
                m = mo.get("ok")
                if m != outcome:
                    res.disagreements.append(dict(relation="Loader.policy vs zeep (outcome class)", case=case, model=m, impl=outcome))
        malformed_cases(ctx, res, vs, allbits, secret)
        error_status_cases(ctx, res, vs, secret)
        # sequences on shared state: the same URL / the same client under different settings, one after the
        # other (each load must be judged under the settings current at that moment)
        LEN = (False, False, True, True, False)
        STRICTS = [(False, True, True, True, False), (True, False, True, True, False), (True, True, True, False, False)]
        seqs = []
        for path in PATHS:
            for vname in ("doctype-only", "internal-unused", "internal-used", "ext-system-file"):
                for sb in STRICTS:
                    seqs.append((path, vname, [LEN, sb]))
                    seqs.append((path, vname, [sb, LEN, sb]))
        for path, vname, seq in seqs:
            var = vs[vname]
            shared = {}
            for i, bits in enumerate(seq):
                outcome, evil, exposed = run_case(path, vname, var, bits, secret, shared=shared)
                res.case(key=("seq", path, vname, tuple(seq), i), nontrivial=True)
                res.count("sequence-step")
                exp = expected_property(var, bits)
                case = dict(path=path, variant=vname, sequence=[list(b) for b in seq], step=i)
                if evil or exposed or (exp == "reject" and outcome == "accepted") or (exp == "accept" and outcome != "accepted"):
                    res.failures.append(dict(what="in a sequence of loads sharing a transport / client, step %d is not judged by the settings "
                                             "current at that step (outcome %s, policy demands %s; evil=%s exposed=%s)" % (i, outcome, exp, evil, exposed),
                                             case=case, outcome=outcome))
        res.sample(dict(path="soap-reply", variant="ext-system-file", doc=ENVELOPE % dict(prolog=vs["ext-system-file"][0], ref="&e;")))
        res.sample(dict(path="xsd:include", variant="parameter", prolog=vs["parameter"][0]))
    finally:
        shutil.rmtree(tmp, ignore_errors=True)
    res.exhaustive = True
    res.programs = len(PATHS)
    res.rule = ("9 ingress paths x 12 document variants (benign, DOCTYPE only, internal used/unused, parameter, external SYSTEM http/file, "
                "PUBLIC, external subset http/file, nested expansion, external parameter entity) x all 32 combinations of the five settings; every hostile variant again inside four not-well-formed carriers (junk before the prolog, broken internal subset, trailing junk, unclosed element) and in three other encodings (UTF-16, UTF-32, UTF-16 big endian with BOM) on every path; hostile replies with HTTP status 500 / 400 / 202 on every reply path; plus two- and three-step sequences (lenient/strict alternations) on a shared transport (document paths: a new client per step) or a shared client under client.settings(...) overrides (reply paths). distinct = distinct (path, variant, settings); non-trivial = not the benign variant")
    return res


def search(ctx):
    ctx.tier = "thorough"
    return run(ctx)


def replay(ctx, payload):
    case = payload.get("case", payload)
    if "sequence" in case:
        r = run(ctx)
        bad = [f for f in r.failures if f["case"].get("sequence") == case["sequence"] and f["case"]["path"] == case["path"]]
        return (not bad), "sequence rerun: %d failures" % len(bad)
    tmp = tempfile.mkdtemp(prefix="zeepverif-c10-")
    REPLY_STATUS[0] = case.get("status", 200)
    try:
        canary = os.path.join(tmp, "canary.txt")
        open(canary, "w").write("CANARY-SECRET-R\n")
        var = variants(canary)[case["variant"]]
        s = case["settings"]
        bits = (s["forbid_dtd"], s["forbid_entities"], s["forbid_external"], s["strict"], s["xml_huge_tree"])
        outcome, evil, exposed = run_case(case["path"], case["variant"], var, bits, "CANARY-SECRET-R", carrier=case.get("carrier"))
    finally:
        REPLY_STATUS[0] = 200
        shutil.rmtree(tmp, ignore_errors=True)
    exp = expected_property(var, bits)
    if case.get("status", 200) != 200:
        return (not evil and not exposed), f"status={case['status']} outcome={outcome} evil={evil} exposed={exposed}"
    ok = not evil and not exposed and not (exp == "reject" and outcome == "accepted") and not (exp == "accept" and outcome != "accepted" and not case.get("carrier"))
    return ok, f"outcome={outcome} expected={exp} evil={evil} exposed={exposed}"


def replay_finding(ctx, finding):
    return False
