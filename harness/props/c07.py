"""C07 — unexpected reply content is never silently discarded (engine A + SOAP header path)."""
import copy
import io
import json

from lxml import etree

from harness.core import Result
from harness import xsdgen, xmlcanon, enginea
from harness.props import c03

LEAN_MODULES = ["ZeepProofs.C07", "ZeepProofs.C07Deep", "ZeepProofs.C07Lax"]
NS = "Zeep.Xsd."
THEOREMS = [NS + t for t in ("c07_strict_no_raw", "c07_strict_rejects_leftover", "c07_lax_keeps_leftover", "elemLoop_takes_own_name",
                             "seqRound_flat_keeps_strangers", "parseP_flat_seq_keeps_strangers", "c07_stranger_flat", "c07_leak_counterexample",
                             "acct", "acct_parseP_all", "c07_strict_rejects_stranger_any_depth", "c07_strict_rejects_undeclared_child",
                             "c07_lax_keeps_stranger", "c07_header_entries_kept", "c07_all_surplus_kept",
                             "accti", "accti_top", "c07_lax_keeps_stranger_any_depth")]
LEVEL = "proof"
MANIFEST = dict(
    engine="A: lean/ZeepModel/Xsd/Parse.lean",
    technique="Lean 4 theorems about the model of zeep's deque decoder: an accounting invariant proved by mutual induction over every decoder function (what a content model removes from the deque is a prefix whose every node was decoded by a declaration carrying its local name; xsd:all hands back what its members leave), from which: strict mode rejects a stranger at any depth and any position under any wildcard-free nesting of sequence / choice / group (xsd:all at the top) with any occurrence bounds; non-strict mode keeps it as raw XML reachable from the returned value at any depth (accounting refined with places: every consumed node is decoded into an item of the returned instance; c07_lax_keeps_stranger_any_depth); unknown SOAP header entries (consume_other) are always kept; + exhaustive insertion tie on valid documents (undeclared elements and surplus occurrences of declared ones) and on SOAP headers",
    text="acct (mutual induction over parseP / seqLoop / seqRound / choiceLoop / choiceOptions / groupLoop, every gas, both modes) and acct_parseP_all give c07_strict_rejects_stranger_any_depth (HasStranger: a child no declaration of the enclosing content model can account for, at any depth, any position, content models of any nesting of sequence / choice / group with any bounds, xsd:all at the top), c07_lax_keeps_stranger (the stranger is among the raw elements of its parent), c07_header_entries_kept (consume_other: kept raw in both modes) and c07_all_surplus_kept (fix F31); c07_strict_rejects_leftover / c07_lax_keeps_leftover hold for every content particle incl. wildcards. Tied by inserting an undeclared element at every position (before first, between any two, after last child of every complex element, every depth) of libxml2-valid documents, both modes, comparing outcome class / raw placement with the model and checking directly that the stranger never vanishes; unknown SOAP header entries at every position are checked to stay as raw elements.",
    note="Outside the theorems by construction of HasStranger: wildcards (xsd:any accepts strangers by definition), xsi:nil / xsi:type (not in the Lean model; tied only). Known finding K1: children of an element whose type has no element content (empty complexType, simpleContent, simple type) vanish in both modes (counterexample theorem proved, leak sites mirrored in the model).",
    design_ref="DESIGN.md section 6, C07",
)
TRUSTED = c03.TRUSTED
ASSUMPTIONS = ["a stranger is an element whose local name is declared nowhere in the schema"]


def complex_elements(doc):
    return [e for e in doc.iter()]


def contains_stranger(v):
    if isinstance(v, dict):
        if "__xml__" in v:
            return node_has_stranger(v["__xml__"])
        return any(contains_stranger(x) for x in v.values())
    if isinstance(v, list):
        return any(contains_stranger(x) for x in v)
    return False


def node_has_stranger(n):
    return n["t"][1] == "stranger" or n["t"][0] == "urn:zzz" or any(node_has_stranger(k) for k in n["k"])


def content_kind(case, parent):
    """kind of the content particle of the parent's type ('seq' / 'choice' / 'all' / None)"""
    ln = etree.QName(parent.tag).localname
    tname = case.src["root"][1] if ln == "root" else None
    if tname is None:
        for t in case.src["types"].values():
            def find(p):
                if p is None:
                    return None
                if p["k"] == "elem":
                    return p["type"] if p["name"] == ln else None
                for i in p.get("items", []):
                    r = find(i)
                    if r:
                        return r
                return None
            tname = tname or find(t.get("content"))
    t = case.src["types"].get(tname)
    if not t or not t.get("content"):
        return None
    return t["content"]["k"]


def parent_kind(case, parent):
    """what kind of type the stranger's parent element has: 'content' (element content), 'K1' (no element content)"""
    ln = etree.QName(parent.tag).localname
    if ln == "root":
        tname = case.src["root"][1]
    else:
        tname = None
        for t in case.src["types"].values():
            def find(p):
                if p is None:
                    return None
                if p["k"] == "elem":
                    return p["type"] if p["name"] == ln else None
                if p["k"] in ("seq", "choice", "all"):
                    for i in p["items"]:
                        r = find(i)
                        if r:
                            return r
                return None
            tname = tname or find(t.get("content"))
            if t.get("base") and not tname:
                pass
        if tname is None:
            return "unknown"
    if tname in xsdgen.LEAVES:
        return "K1"
    xt = parent.get("{%s}type" % xsdgen.XSI)
    if xt:
        tname = xt.split(":")[-1]
    t = case.src["types"][tname]
    if t["kind"] == "simpleContent":
        return "K1"
    if t["content"] is None and not t.get("base") and not t["attrs"]:
        return "K1"           # truly empty type; an attribute-only type does check its children
    return "content"


def has_wildcard(case):
    return "<xs:any " in case.xsd


def run(ctx):
    res = Result()
    import logging
    logging.getLogger("zeep").setLevel(logging.CRITICAL)
    pending = []
    nschemas = ctx.n(60, 1200)
    for i in range(nschemas):
        seed = ctx.seed * 100000 + i
        case = enginea.Case(seed, "core")
        res.programs += 1
        for doc in case.documents(1):
            xsitype = doc.attrib.pop("data-xsitype", None) is not None
            if not case.validator.validate(doc):
                continue
            parents = [e for e in doc.iter()]
            for pi, parent in enumerate(parents):
                npos = len(parent) + 1
                if len(parent) == 0 and parent_kind(case, parent) == "K1" and pi % 4:
                    continue          # leaf parents (known finding K1) are sampled, not exhausted
                positions = range(npos) if npos <= 4 or ctx.tier == "thorough" else sorted({0, npos - 1, npos // 2})
                for pos in positions:
                    d = copy.deepcopy(doc)
                    p2 = [e for e in d.iter()][pi]
                    names = ["{urn:zzz}stranger", "stranger", "{%s}stranger" % xsdgen.TNS]
                    sib = ctx.rng.choice(list(parent)) if len(parent) else None
                    if sib is not None:
                        # another vendor's element that happens to share the local name of a declared sibling
                        names.append("{urn:zzz}%s" % etree.QName(sib.tag).localname)
                    x = etree.Element(ctx.rng.choice(names))
                    x.text = "s"
                    if sib is not None and x.tag == names[-1] and len(sib) == 0:
                        x.text = sib.text         # a lexically valid text for the sibling's type (none when the sibling is nilled / empty)
                    p2.insert(pos, x)
                    pk = parent_kind(case, parent)
                    ty = case.model_type(xsdgen.height(d) + 1)
                    same_local = x.tag.startswith("{urn:zzz}") and not x.tag.endswith("}stranger")
                    if same_local:
                        res.count("stranger:foreign-namespace-same-local-name")
                    for strict in (True, False):
                        if same_local and not strict and content_kind(case, parent) != "all":
                            continue      # non-strict decoding of sequences / choices matches by local name (zeep's documented leniency)
                        r = enginea.impl_parse(case, d, strict)
                        c = dict(seed=seed, profile="core", xsd=case.xsd, document=etree.tostring(d).decode(), strict=strict, parent_kind=pk)
                        res.case(key=(seed, pi, pos, strict, x.tag), nontrivial=True)
                        res.count("parent:" + pk)
                        res.count("strict" if strict else "lax")
                        res.count("outcome:" + r["outcome"])
                        fail = None
                        if strict:
                            if r["outcome"] == "ok":
                                fail = "strict mode accepted a reply with an undeclared element"
                        else:
                            if r["outcome"] == "ok" and not contains_stranger(r["value"]):
                                fail = "non-strict mode dropped the undeclared element without trace"
                            elif r["outcome"] not in ("ok", "XMLParseError"):
                                fail = "non-strict decoding raised %s %s" % (r["outcome"], r.get("msg", ""))
                        if fail:
                            f = dict(what=fail, case=c)
                            if same_local and strict and not case.src["qualified"] and r["outcome"] == "ok":
                                f["known"] = "K16"
                                res.known_hits["K16"] = res.known_hits.get("K16", 0) + 1
                            elif pk == "K1" and r["outcome"] == "ok":
                                f["known"] = "K1"
                                res.known_hits["K1"] = res.known_hits.get("K1", 0) + 1
                            res.failures.append(f)
                        if not xsitype:
                            pending.append(({"op": "xsd.parse", "mode": "strict" if strict else "lax", "ty": ty, "node": xmlcanon.node(d, strip_ws=True)}, r, ty, c))
    surplus_cases(ctx, res, pending)
    c03.compare_model(ctx, res, pending)
    nil_cases(ctx, res)
    hand_cases(ctx, res)
    header_cases(ctx, res)
    settings_assignment_cases(ctx, res)
    xsitype_content_cases(ctx, res)
    wildcard_namespace_cases(ctx, res)
    first_use_race_cases(ctx, res)
    if pending:
        res.sample(dict(document=pending[len(pending) // 2][3]["document"][:500], strict=pending[len(pending) // 2][3]["strict"]))
    res.exhaustive = True
    res.rule = ("for each generated schema one libxml2-valid document; an undeclared element (foreign namespace / no namespace / target namespace) "
                "inserted at every position of every element with up to 3 children (first, middle, last otherwise; all positions in the thorough "
                "tier), at every depth, decoded in strict and non-strict mode; plus SOAP replies with declared output headers and an unknown "
                "header entry at every position. distinct = distinct (schema, parent, position, mode)")
    return res


def has_raw(v):
    if isinstance(v, dict):
        return "__xml__" in v or any(has_raw(x) for x in v.values())
    if isinstance(v, list):
        return any(has_raw(x) for x in v)
    return False


def surplus_cases(ctx, res, pending):
    """a further occurrence of a *declared* element where the schema allows no more of it (beyond maxOccurs, or a second
    occurrence of an xsd:all member): not allowed at that position, so it must be rejected (strict) or surface as raw
    XML (non-strict).  Only documents libxml2 rejects are used."""
    nschemas = ctx.n(60, 600)
    for i in range(nschemas):
        seed = ctx.seed * 100000 + 50000 + i
        case = enginea.Case(seed, "core")
        for doc in case.documents(1):
            if doc.attrib.pop("data-xsitype", None) is not None or not case.validator.validate(doc):
                continue
            elems = [e for e in doc.iter()]
            done = 0
            for ci, child in enumerate(elems):
                parent = child.getparent()
                if parent is None:
                    continue
                kind = content_kind(case, parent)
                places = ["after"] + (["end", "start"] if kind == "all" else [])
                for place in places:
                    d = copy.deepcopy(doc)
                    c2 = [e for e in d.iter()][ci]
                    p2 = c2.getparent()
                    dup = copy.deepcopy(c2)
                    if place == "after":
                        c2.addnext(dup)
                    elif place == "end":
                        p2.append(dup)
                    else:
                        p2.insert(0, dup)
                    if case.validator.validate(d):
                        continue           # the schema allows another occurrence here
                    done += 1
                    ty = case.model_type(xsdgen.height(d) + 1)
                    for strict in (True, False):
                        r = enginea.impl_parse(case, d, strict)
                        c = dict(seed=seed, profile="core", xsd=case.xsd, document=etree.tostring(d).decode(), strict=strict,
                                 kind="surplus", parent_content=kind)
                        res.case(key=("surplus", seed, ci, place, strict), nontrivial=True)
                        res.count("surplus-occurrence:" + str(kind))
                        res.count("outcome:" + r["outcome"])
                        fail = None
                        if strict and r["outcome"] == "ok":
                            fail = "strict mode accepted a reply with an occurrence of a declared element beyond what the schema allows"
                        elif not strict and kind == "all" and r["outcome"] == "ok" and not has_raw(r["value"]):
                            # (under a sequence / choice non-strict decoding may absorb the surplus element into the value, recording
                            # the sibling it expected instead as None: nothing vanishes, so only xsd:all is judged directly here;
                            # the other kinds are judged through the model, whose non-strict semantics C07's theorems cover)
                            fail = "non-strict mode dropped a surplus occurrence of an xsd:all member without trace"
                        elif not strict and r["outcome"] not in ("ok", "XMLParseError", "TypeError"):
                            fail = "non-strict decoding raised %s %s" % (r["outcome"], r.get("msg", ""))
                        if fail:
                            res.failures.append(dict(what=fail, case=c))
                        pending.append(({"op": "xsd.parse", "mode": "strict" if strict else "lax", "ty": ty, "node": xmlcanon.node(d, strip_ws=True)}, r, ty, c))
                if done >= (12 if ctx.tier == "thorough" else 4):
                    break


HAND_XSD = ('<xs:schema xmlns:xs="http://www.w3.org/2001/XMLSchema" xmlns:t="urn:fam" targetNamespace="urn:fam" elementFormDefault="qualified">'
            '<xs:element name="root" type="t:T1"/>'
            '<xs:complexType name="T1"><xs:sequence><xs:element name="a" type="xs:string"/><xs:element name="note" type="xs:string" minOccurs="0"/>'
            '<xs:element name="more" type="t:T2" minOccurs="0"/></xs:sequence></xs:complexType>'
            '<xs:complexType name="T2"><xs:sequence><xs:element name="x" type="xs:string"/><xs:any processContents="%s" minOccurs="0" maxOccurs="unbounded"/></xs:sequence></xs:complexType>'
            '<xs:element name="known"><xs:complexType><xs:sequence><xs:element name="k" type="xs:string"/></xs:sequence></xs:complexType></xs:element>'
            '</xs:schema>')


def hand_cases(ctx, res):
    """(1) one compiled schema decodes replies first inside `with settings(strict=False)` and then strictly (and the other
    way round): what the lenient decode saw must not make the strict decode accept it.  (2) a stranger *inside* the content
    a wildcard matched against a declared global element (processContents lax / strict / skip)."""
    import zeep.xsd
    import zeep.settings
    F = "urn:fam"
    doc_foreign = '<f:root xmlns:f="urn:fam"><f:a>1</f:a><v:note xmlns:v="urn:vendor:ext">foreign</v:note></f:root>'
    doc_stranger = '<f:root xmlns:f="urn:fam"><f:a>1</f:a><f:stranger>s</f:stranger></f:root>'
    doc_ok = '<f:root xmlns:f="urn:fam"><f:a>1</f:a><f:note>n</f:note></f:root>'

    def decode(zs, text):
        try:
            v = zs.get_element("{%s}root" % F).parse(etree.fromstring(text.encode()), zs)
            return "ok", enginea.canon_value(v)
        except Exception as e:  # noqa
            return type(e).__name__, None
    for order in ("lax-then-strict", "strict-then-lax-then-strict", "lax-in-thread-then-strict"):
        for doc, label in ((doc_foreign, "foreign-namespace-same-local-name"), (doc_stranger, "undeclared")):
            zs = zeep.xsd.Schema(etree.fromstring((HAND_XSD % "lax").encode()))
            decode(zs, doc_ok)
            steps = []
            if order.startswith("strict"):
                steps.append(("strict", decode(zs, doc)))
            if order == "lax-in-thread-then-strict":
                import threading

                def lenient():
                    with zs.settings(strict=False):
                        steps.append(("lax", decode(zs, doc)))
                t = threading.Thread(target=lenient)
                t.start()
                t.join()
            else:
                with zs.settings(strict=False):
                    steps.append(("lax", decode(zs, doc)))
            steps.append(("strict", decode(zs, doc)))
            res.case(key=("hand-settings", order, label), nontrivial=True)
            res.count("hand:lenient-then-strict")
            for mode, (out, val) in steps:
                c = dict(kind="hand", probe="settings-sequence", order=order, stranger=label, mode=mode)
                if mode == "strict" and out == "ok":
                    res.failures.append(dict(what="strict decoding accepted a reply with an element the schema does not allow, after the same schema "
                                                  "had decoded it leniently (%s)" % order, case=c))
                elif mode == "lax" and label == "undeclared" and out == "ok" and not contains_stranger_or_note(val):
                    # (a foreign element sharing a declared local name is decoded *as* that element by non-strict sequences:
                    # zeep's documented leniency, nothing vanishes)
                    res.failures.append(dict(what="non-strict mode dropped the element without trace", case=c))
    for pc in ("lax", "strict", "skip"):
        zs = zeep.xsd.Schema(etree.fromstring((HAND_XSD % pc).encode()))
        for inner, label in (('<f:known><f:k>v</f:k></f:known>', "declared-content"),
                             ('<f:known><f:k>v</f:k><f:stranger>s</f:stranger></f:known>', "stranger-inside-declared-content"),
                             ('<f:known><z:stranger xmlns:z="urn:zzz">s</z:stranger><f:k>v</f:k></f:known>', "stranger-before-declared-content")):
            doc = '<f:root xmlns:f="urn:fam"><f:a>1</f:a><f:more><f:x>x</f:x>%s</f:more></f:root>' % inner
            out, val = decode(zs, doc)
            res.case(key=("hand-wildcard", pc, label), nontrivial=True)
            res.count("hand:wildcard-content:" + pc)
            c = dict(kind="hand", probe="wildcard-content", process_contents=pc, content=label, document=doc)
            if label == "declared-content":
                if out != "ok":
                    res.failures.append(dict(what="valid wildcard content refused: %s" % out, case=c))
            elif pc != "skip" and out == "ok":
                res.failures.append(dict(what="strict decoding accepted an undeclared element inside wildcard content that is decoded against its global declaration", case=c))


POLY_XSD = ('<xs:schema xmlns:xs="http://www.w3.org/2001/XMLSchema" xmlns:t="urn:fam" targetNamespace="urn:fam" elementFormDefault="qualified">'
            '<xs:complexType name="Empty"/><xs:complexType name="Abstract" abstract="true"/>'
            '<xs:complexType name="Circle"><xs:complexContent><xs:extension base="t:Empty"><xs:sequence><xs:element name="r" type="xs:int"/>'
            '<xs:element name="inner" minOccurs="0"><xs:complexType><xs:sequence><xs:element name="deep" type="xs:string"/></xs:sequence></xs:complexType></xs:element>'
            '</xs:sequence></xs:extension></xs:complexContent></xs:complexType>'
            '<xs:complexType name="Square"><xs:complexContent><xs:extension base="t:Abstract"><xs:sequence><xs:element name="side" type="xs:int"/></xs:sequence></xs:extension></xs:complexContent></xs:complexType>'
            '<xs:complexType name="Free"><xs:sequence><xs:element name="v" type="xs:string"/></xs:sequence></xs:complexType>'
            '<xs:element name="root"><xs:complexType><xs:sequence><xs:element name="k" type="xs:string"/>'
            '<xs:element name="shape" type="t:Empty" minOccurs="0"/><xs:element name="abs" type="t:Abstract" minOccurs="0"/>'
            '<xs:element name="extra" type="xs:anyType" minOccurs="0"/><xs:element name="misc" minOccurs="0"/></xs:sequence></xs:complexType></xs:element></xs:schema>')


def settings_assignment_cases(ctx, res):
    """one Settings object, one thread: a `with settings(strict=...)` block, later a plain assignment of `strict`, then a reply
    with an undeclared element - the decode follows the value assigned last (strict rejects, non-strict keeps the element raw)"""
    import zeep.xsd
    doc = '<f:root xmlns:f="urn:fam"><f:a>1</f:a><f:stranger>s</f:stranger></f:root>'
    for block_val, assigned in ((False, True), (True, False), (False, False), (True, True)):
        for construct in ("default", "explicit"):
            import zeep.settings
            st = zeep.settings.Settings() if construct == "default" else zeep.settings.Settings(strict=not assigned)
            zs = zeep.xsd.Schema(etree.fromstring((HAND_XSD % "lax").encode()), settings=st)
            root = zs.get_element("{urn:fam}root")
            with zs.settings(strict=block_val):
                pass
            zs.settings.strict = assigned
            res.case(key=("hand-assign", block_val, assigned, construct), nontrivial=True)
            res.count("hand:block-then-assignment")
            c = dict(kind="hand", probe="settings-assignment", block=block_val, assigned=assigned, constructed=construct)
            try:
                v = enginea.canon_value(root.parse(etree.fromstring(doc.encode()), zs))
                out = "ok"
            except Exception as e:  # noqa
                out, v = type(e).__name__, None
            if assigned and out == "ok":
                res.failures.append(dict(what="settings.strict was assigned True after a settings block, but the reply with an undeclared element was accepted", case=c))
            elif not assigned and out != "ok":
                res.failures.append(dict(what="settings.strict was assigned False after a settings block, but the reply was rejected (%s) instead of keeping the element raw" % out, case=c))
            elif not assigned and not contains_stranger_or_note(v):
                res.failures.append(dict(what="non-strict mode dropped the element without trace", case=c))


def xsitype_content_cases(ctx, res):
    """content decoded under an xsi:type whose *declared* type has no content of its own (an empty or abstract base type,
    xsd:anyType, an element declared without type): a stranger inside that content - at any depth - is rejected in strict mode
    and kept raw in non-strict mode, exactly as without the substitution"""
    import zeep.xsd
    import zeep.settings
    X = 'xmlns:xsi="http://www.w3.org/2001/XMLSchema-instance"'
    circle = '<f:r>1</f:r><f:inner><f:deep>d</f:deep>%s</f:inner>%s'
    carriers = {"empty-base": '<f:shape xsi:type="f:Circle">%s</f:shape>', "abstract-base": '<f:abs xsi:type="f:Square"><f:side>2</f:side>%s</f:abs>',
                "anyType": '<f:extra xsi:type="f:Free"><f:v>v</f:v>%s</f:extra>', "untyped": '<f:misc xsi:type="f:Circle">%s</f:misc>'}
    stray = '<f:stranger>s</f:stranger>'
    for cname, tmpl in carriers.items():
        variants = [("valid", "", "")]
        if "%s" in tmpl:
            variants += [("stray-last", "", stray), ("stray-deep", stray, "")]
        for vname, deep, last in variants:
            if cname in ("empty-base", "untyped"):
                inner = circle % (deep, last)
            else:
                if vname == "stray-deep":
                    continue
                inner = last
            doc = '<f:root xmlns:f="urn:fam" %s><f:k>x</f:k>%s</f:root>' % (X, tmpl % inner)
            for strict in (True, False):
                zs = zeep.xsd.Schema(etree.fromstring(POLY_XSD.encode()), settings=zeep.settings.Settings(strict=strict))
                res.case(key=("hand-xsitype", cname, vname, strict), nontrivial=True)
                res.count("hand:xsitype-content:" + cname)
                c = dict(kind="hand", probe="xsitype-content", declared=cname, variant=vname, strict=strict, document=doc)
                try:
                    v = enginea.canon_value(zs.get_element("{urn:fam}root").parse(etree.fromstring(doc.encode()), zs))
                    out = "ok"
                except Exception as e:  # noqa
                    out, v = type(e).__name__, None
                if vname == "valid":
                    if out != "ok":
                        res.failures.append(dict(what="a valid document with an xsi:type substitution is refused: %s" % out, case=c))
                elif strict and out == "ok":
                    res.failures.append(dict(what="strict decoding accepted an undeclared element inside content decoded under an xsi:type (declared type: %s): %r" % (cname, v), case=c))
                elif not strict and out == "ok" and not contains_stranger_or_note(v):
                    res.failures.append(dict(what="non-strict mode dropped the element inside xsi:typed content without trace: %r" % (v,), case=c))


def value_mentions(v, text):
    """does `text` occur anywhere in the decoded value (leaf values, raw elements kept by wildcards)?"""
    if hasattr(v, "__values__"):
        return any(value_mentions(x, text) for x in v.__values__.values())
    if isinstance(v, dict):
        return any(value_mentions(x, text) for x in v.values())
    if isinstance(v, (list, tuple)):
        return any(value_mentions(x, text) for x in v)
    if isinstance(v, etree._Element):
        return any(text in t for t in v.itertext())
    if type(v).__name__ == "AnyObject":
        return value_mentions(v.value, text)
    return isinstance(v, str) and text in v


NSANY_XSD = ('<xs:schema xmlns:xs="http://www.w3.org/2001/XMLSchema" xmlns:t="urn:fam" targetNamespace="urn:fam" elementFormDefault="qualified">'
             '<xs:element name="known" type="xs:string"/>'
             '<xs:element name="root"><xs:complexType><xs:sequence><xs:element name="a" type="xs:string"/>'
             '<xs:any namespace="%s" processContents="lax" minOccurs="0" maxOccurs="%s"/>%s</xs:sequence></xs:complexType></xs:element></xs:schema>')


def wildcard_namespace_cases(ctx, res):
    """an element at the position of a wildcard with a namespace constraint, from a namespace the constraint excludes: whether the
    decoder honours the constraint or not, the element is either refused or kept in the value - it does not vanish"""
    import zeep.xsd
    tail = '<xs:element name="tail" type="xs:string" minOccurs="0"/>'
    strays = {"target": "<f:bogus>BOGUS</f:bogus>", "local": "<bogus>BOGUS</bogus>", "foreign": '<s:bogus xmlns:s="urn:stray">BOGUS</s:bogus>'}
    ok_items = {"##other": '<e:ext xmlns:e="urn:ext">1</e:ext>', "##targetNamespace": "<f:known>1</f:known>", "##local": "<plain>1</plain>",
                "urn:ext urn:ext2": '<e:ext xmlns:e="urn:ext">1</e:ext>', "##any": '<e:ext xmlns:e="urn:ext">1</e:ext>'}
    excluded = {"##other": ("target", "local"), "##targetNamespace": ("foreign", "local"), "##local": ("target", "foreign"),
                "urn:ext urn:ext2": ("target", "local", "foreign"), "##any": ()}
    for ns in ok_items:
        for mx in ("1", "unbounded"):
            for with_tail in (False, True):
                zs = zeep.xsd.Schema(etree.fromstring((NSANY_XSD % (ns, mx, tail if with_tail else "")).encode()))
                root = zs.get_element("{urn:fam}root")
                for which in excluded[ns] + ("none",):
                    for before in ((False, True) if mx == "unbounded" else (False,)):
                        kids = (ok_items[ns] if before else "") + (strays[which] if which != "none" else ok_items[ns]) + ("<f:tail>t</f:tail>" if with_tail else "")
                        doc = '<f:root xmlns:f="urn:fam"><f:a>1</f:a>%s</f:root>' % kids
                        for strict in (True, False):
                            res.case(key=("wildcard-namespace", ns, mx, with_tail, which, before, strict), nontrivial=True)
                            res.count("hand:wildcard-namespace:" + ns)
                            c = dict(kind="hand", probe="wildcard-namespace", namespace=ns, max_occurs=mx, tail=with_tail, stray=which, strict=strict, document=doc)
                            try:
                                with zs.settings(strict=strict):
                                    v = root.parse(etree.fromstring(doc.encode()), zs)
                            except Exception as e:  # noqa
                                if which == "none":
                                    res.failures.append(dict(what="content the wildcard allows is refused: %s: %s" % (type(e).__name__, e), case=c))
                                continue
                            if which != "none" and not value_mentions(v, "BOGUS"):
                                res.failures.append(dict(what="an element outside the wildcard's namespace constraint vanished: decoding succeeded (%s) and the value does not hold it"
                                                              % ("strict" if strict else "non-strict"), case=c))


RACE_XSD = ('<xs:schema xmlns:xs="http://www.w3.org/2001/XMLSchema" xmlns:t="urn:fam" targetNamespace="urn:fam" elementFormDefault="qualified">'
            '<xs:element name="root" type="t:T1"/>'
            '<xs:complexType name="T1"><xs:sequence><xs:element name="a" type="xs:string"/><xs:element name="inner" type="t:T2" minOccurs="0"/>'
            '<xs:choice minOccurs="0"><xs:element name="c1" type="xs:string"/><xs:element name="c2" type="t:T2"/></xs:choice></xs:sequence></xs:complexType>'
            '<xs:complexType name="T2"><xs:sequence><xs:element name="x" type="xs:string"/></xs:sequence></xs:complexType></xs:schema>')


def first_use_race_cases(ctx, res):
    """two threads decode the FIRST replies of a freshly compiled schema at the same time: thread A is stopped inside a lazily
    computed member table (elements / elements_nested / attributes), thread B decodes a reply with a stranger, A continues.
    B's outcome is the outcome of a single-threaded decode with a fresh schema (rejected when strict, kept when not)."""
    import sys
    import linecache
    import threading
    import zeep.xsd
    ok_doc = '<f:root xmlns:f="urn:fam"><f:a>1</f:a><f:inner><f:x>x</f:x></f:inner></f:root>'
    docs = {"stranger-in-root": '<f:root xmlns:f="urn:fam"><f:a>1</f:a><f:stranger>s</f:stranger></f:root>',
            "stranger-in-inner": '<f:root xmlns:f="urn:fam"><f:a>1</f:a><f:inner><f:x>x</f:x><f:stranger>s</f:stranger></f:inner></f:root>'}

    def decode(zs, text, strict):
        try:
            with zs.settings(strict=strict):
                v = zs.get_element("{urn:fam}root").parse(etree.fromstring(text.encode()), zs)
            return ["ok", enginea.canon_value(v)]
        except Exception as e:  # noqa
            return [type(e).__name__, None]
    lazy = ("elements", "elements_nested", "attributes")
    for label, doc in docs.items():
        for strict in (True, False):
            want = decode(zeep.xsd.Schema(etree.fromstring(RACE_XSD.encode())), doc, strict)
            for k in range(8):
                zs = zeep.xsd.Schema(etree.fromstring(RACE_XSD.encode()))
                a_in, b_done = threading.Event(), threading.Event()
                state = {"paused": False, "seen": 0, "where": None}
                out = {}

                def local(frame, event, arg):
                    if event == "line" and not state["paused"]:
                        src = linecache.getline(frame.f_code.co_filename, frame.f_lineno).strip()
                        if src.startswith("for "):
                            state["paused"] = True
                            state["where"] = "%s:%s" % (frame.f_code.co_name, frame.f_lineno)
                            a_in.set()
                            b_done.wait(10)
                    return local

                def tracer(frame, event, arg):
                    if event == "call" and not state["paused"] and frame.f_code.co_name in lazy and "/zeep/xsd/" in frame.f_code.co_filename:
                        state["seen"] += 1
                        if state["seen"] > k:
                            return local
                    return tracer

                def run_a():
                    sys.settrace(tracer)
                    try:
                        out["A"] = decode(zs, ok_doc, True)
                    finally:
                        sys.settrace(None)
                        a_in.set()

                def run_b():
                    a_in.wait(10)
                    try:
                        out["B"] = decode(zs, doc, strict)
                    finally:
                        b_done.set()
                ta, tb = threading.Thread(target=run_a), threading.Thread(target=run_b)
                ta.start(); tb.start(); ta.join(20); tb.join(20)
                if not state["paused"]:
                    break
                res.case(key=("first-use-race", label, strict, k), nontrivial=True)
                res.count("hand:first-use-race")
                c = dict(kind="hand", probe="first-use-race", stranger=label, strict=strict, pause=k, paused_at=state["where"])
                if out.get("B") != want:
                    res.failures.append(dict(what="a reply with an undeclared element decoded while another thread was computing a member table of the "
                                                  "schema for the first time (%s): outcome %r, single-threaded %r" % (state["where"], out.get("B"), want), case=c))
                if out.get("A", [None])[0] != "ok":
                    res.failures.append(dict(what="the valid reply decoded by the paused thread is refused: %r" % (out.get("A"),), case=c))


def contains_stranger_or_note(v):
    if isinstance(v, dict):
        if "__xml__" in v:
            return True
        return any(contains_stranger_or_note(x) for x in v.values())
    if isinstance(v, list):
        return any(contains_stranger_or_note(x) for x in v)
    return False


NIL_XSD = ('<xs:schema xmlns:xs="http://www.w3.org/2001/XMLSchema" xmlns:t="urn:fam" targetNamespace="urn:fam" elementFormDefault="qualified">'
           '<xs:element name="root" type="t:T1"/>'
           '<xs:complexType name="T1"><xs:sequence><xs:element name="a" type="xs:string"/><xs:element name="c" type="t:T2" nillable="true" minOccurs="0" maxOccurs="2"/>'
           '<xs:element name="d" type="xs:string" minOccurs="0"/></xs:sequence></xs:complexType>'
           '<xs:complexType name="T2"><xs:sequence><xs:element name="x" type="xs:string"/></xs:sequence><xs:attribute name="id" type="xs:int"/></xs:complexType></xs:schema>')


def nil_cases(ctx, res):
    """a nilled complex element (valid: empty, xsi:nil='true') with an undeclared child put inside it"""
    import zeep.xsd
    import zeep.settings
    val = etree.XMLSchema(etree.fromstring(NIL_XSD.encode()))
    docs = ['<root xmlns="urn:fam" xmlns:xsi="%s"><a>1</a><c xsi:nil="true"/></root>',
            '<root xmlns="urn:fam" xmlns:xsi="%s"><a>1</a><c><x>v</x></c><c xsi:nil="true" id="3"/><d>z</d></root>',
            '<root xmlns="urn:fam" xmlns:xsi="%s"><a>1</a><c xsi:nil="1"/><d>z</d></root>']
    for strict in (True, False):
        zs = zeep.xsd.Schema(etree.fromstring(NIL_XSD.encode()), settings=zeep.settings.Settings(strict=strict))
        root = zs.get_element("{urn:fam}root")
        for text in docs:
            doc = etree.fromstring((text % xsdgen.XSI).encode())
            assert val.validate(doc)
            for c_el in [e for e in doc.iter("{urn:fam}c") if e.get("{%s}nil" % xsdgen.XSI)]:
                idx = [e for e in doc.iter()].index(c_el)
                for tag in ("{urn:zzz}stranger", "{urn:fam}stranger", "stranger"):
                    d = copy.deepcopy(doc)
                    p2 = [e for e in d.iter()][idx]
                    x = etree.SubElement(p2, tag)
                    x.text = "s"
                    res.case(key=("nil", strict, text, tag), nontrivial=True)
                    res.count("stranger-inside-nilled-complex-element")
                    c = dict(kind="nil-complex", strict=strict, xsd=NIL_XSD, document=etree.tostring(d).decode())
                    try:
                        v = root.parse(d, zs)
                        kept = contains_stranger(enginea.canon_value(v))
                        if strict:
                            res.failures.append(dict(what="strict mode accepted an undeclared element inside a nilled complex element", case=c))
                        elif not kept:
                            res.failures.append(dict(what="non-strict mode dropped an undeclared element inside a nilled complex element without trace", case=c))
                    except Exception as e:  # noqa
                        if type(e).__name__ not in ("XMLParseError", "UnexpectedElementError"):
                            res.failures.append(dict(what="decoding raised %s: %s" % (type(e).__name__, e), case=c))


HWSDL = """<?xml version="1.0"?>
<definitions xmlns="http://schemas.xmlsoap.org/wsdl/" xmlns:soap="http://schemas.xmlsoap.org/wsdl/soap/"
  xmlns:xsd="http://www.w3.org/2001/XMLSchema" xmlns:tns="urn:t" targetNamespace="urn:t">
  <types><xsd:schema targetNamespace="urn:t" elementFormDefault="qualified">
      <xsd:element name="in" type="xsd:string"/><xsd:element name="out" type="xsd:string"/>
      <xsd:element name="h1" type="xsd:string"/><xsd:element name="h2" type="xsd:int"/></xsd:schema></types>
  <message name="mi"><part name="p" element="tns:in"/></message>
  <message name="mo"><part name="p" element="tns:out"/><part name="h1" element="tns:h1"/><part name="h2" element="tns:h2"/></message>
  <portType name="pt"><operation name="op"><input message="tns:mi"/><output message="tns:mo"/></operation></portType>
  <binding name="b" type="tns:pt"><soap:binding style="document" transport="http://schemas.xmlsoap.org/soap/http"/>
    <operation name="op"><soap:operation soapAction="a"/><input><soap:body use="literal"/></input>
      <output><soap:body use="literal" parts="p"/><soap:header message="tns:mo" part="h1" use="literal"/><soap:header message="tns:mo" part="h2" use="literal"/></output></operation></binding>
  <service name="svc"><port name="p" binding="tns:b"><soap:address location="http://h.example/s"/></port></service>
</definitions>"""
ENV = "http://schemas.xmlsoap.org/soap/envelope/"


def header_cases(ctx, res):
    import zeep
    import zeep.transports
    import zeep.settings
    import requests
    box = {}

    class T(zeep.transports.Transport):
        def post(self, address, message, headers):
            r = requests.Response()
            r.status_code = 200
            r.headers["Content-Type"] = "text/xml"
            r.encoding = "utf-8"
            r._content = box["reply"]
            return r
    declared = ['<h1 xmlns="urn:t">one</h1>', '<h2 xmlns="urn:t">2</h2>']
    for unknown, uname in (('<u:Unknown xmlns:u="urn:unknown" id="7">kept?</u:Unknown>', "Unknown"),
                           ('<u:h1 xmlns:u="urn:unknown" id="7">kept?</u:h1>', "h1")):
        _header_cases(ctx, res, T, box, declared, unknown, uname)
    # entries carrying the envelope's own targeting / processing attributes, both SOAP versions
    for ver, env in (("1.1", ENV), ("1.2", "http://www.w3.org/2003/05/soap-envelope")):
        tattr = "actor" if ver == "1.1" else "role"
        for label, attrs in (("to-gateway", 'e:%s="http://gateway.example.com/inbound"' % tattr),
                             ("to-urn", 'e:%s="urn:node:7"' % tattr),
                             ("to-next", 'e:%s="%s"' % (tattr, "http://schemas.xmlsoap.org/soap/actor/next" if ver == "1.1" else env + "/role/next")),
                             ("to-none", 'e:%s="%s/role/none"' % (tattr, "http://www.w3.org/2003/05/soap-envelope")),
                             ("must-understand", 'e:mustUnderstand="%s"' % ("1" if ver == "1.1" else "true")),
                             ("must-understand+target", 'e:mustUnderstand="%s" e:%s="urn:node:7"' % ("0" if ver == "1.1" else "false", tattr)),
                             ("relay", 'e:relay="true"')):
            unknown = '<u:Routing xmlns:u="urn:unknown" %s>kept?</u:Routing>' % attrs
            _header_cases(ctx, res, T, box, declared, unknown, "Routing:%s:%s" % (ver, label), env=env)


def _header_cases(ctx, res, T, box, declared, unknown, uname, env=ENV):
    import zeep
    import zeep.settings
    ENV = env
    wsdl = HWSDL if env == globals()["ENV"] else HWSDL.replace("http://schemas.xmlsoap.org/wsdl/soap/", "http://schemas.xmlsoap.org/wsdl/soap12/")
    for strict in (True, False):
        client = zeep.Client(io.BytesIO(wsdl.encode()), transport=T(), settings=zeep.settings.Settings(strict=strict))
        for present in ([0, 1], [0], [1], []):
            entries = [declared[i] for i in present]
            for pos in range(len(entries) + 1):
                es = list(entries)
                es.insert(pos, unknown)
                box["reply"] = ('<e:Envelope xmlns:e="%s"><e:Header>%s</e:Header><e:Body><out xmlns="urn:t">ok</out></e:Body></e:Envelope>' % (ENV, "".join(es))).encode()
                res.case(key=("hdr", uname, strict, tuple(present), pos), nontrivial=True)
                res.count("soap-header")
                c = dict(kind="soap-header", strict=strict, declared_present=present, position=pos, reply=box["reply"].decode())
                try:
                    r = client.service.op("x")
                    raw = r.header["_raw_elements"] if "_raw_elements" in r.header else None
                    ok = raw is not None and any(etree.QName(x.tag).namespace == "urn:unknown" and x.text == "kept?" for x in raw)
                    if ok and uname == "h1" and 0 in present and r.header["h1"] != "one":
                        ok = False          # the foreign entry displaced the declared one
                    if not ok:
                        res.failures.append(dict(what="unknown SOAP header entry was not kept as a raw element", case=c))
                except Exception as e:  # noqa
                    res.failures.append(dict(what="reply with an unknown SOAP header entry raised %s: %s" % (type(e).__name__, e), case=c))


def search(ctx):
    ctx.tier = "thorough"
    return run(ctx)


def replay(ctx, payload):
    c = payload.get("case", payload)
    if c.get("kind") == "hand":
        r = Result()
        hand_cases(ctx, r)
        settings_assignment_cases(ctx, r)
        xsitype_content_cases(ctx, r)
        wildcard_namespace_cases(ctx, r)
        first_use_race_cases(ctx, r)
        bad = [f for f in r.failures if f["case"].get("probe") == c.get("probe")]
        return (not bad), "hand-written probe rerun: %s" % (bad[0]["what"] if bad else "holds")
    if c.get("kind") == "nil-complex":
        r = Result()
        nil_cases(ctx, r)
        return (not r.failures), "nil-complex rerun: %d failures" % len(r.failures)
    if c.get("kind") == "soap-header":
        r = Result()
        header_cases(ctx, r)
        return (not r.failures), "header rerun: %d failures" % len(r.failures)
    case = enginea.Case(c["seed"], c["profile"])
    d = etree.fromstring(c["document"].encode())
    r = enginea.impl_parse(case, d, c["strict"])
    if c.get("kind") == "surplus":
        ok = r["outcome"] != "ok" if c["strict"] else (r["outcome"] != "ok" or c.get("parent_content") != "all" or has_raw(r["value"]))
        return ok, "surplus occurrence, %s outcome %s" % ("strict" if c["strict"] else "lax", r["outcome"])
    if c["strict"]:
        return r["outcome"] != "ok", "strict outcome " + r["outcome"]
    return (r["outcome"] != "ok" or contains_stranger(r["value"])), "lax outcome %s, stranger kept: %s" % (r["outcome"], r["outcome"] == "ok" and contains_stranger(r["value"]))


def replay_finding(ctx, finding):
    import zeep.xsd
    if finding["id"] == "K16":
        xsd = ('<xs:schema xmlns:xs="http://www.w3.org/2001/XMLSchema" xmlns:t="urn:fam" targetNamespace="urn:fam"><xs:element name="root" type="t:T1"/>'
               '<xs:complexType name="T1"><xs:sequence><xs:element name="a" type="xs:string" maxOccurs="unbounded"/></xs:sequence></xs:complexType></xs:schema>')
        zs = zeep.xsd.Schema(etree.fromstring(xsd.encode()))
        try:
            zs.get_element("{urn:fam}root").parse(etree.fromstring(b'<q:root xmlns:q="urn:fam"><a>1</a><z:a xmlns:z="urn:zzz">foreign</z:a></q:root>'), zs)
            return True
        except Exception:  # noqa
            return False
    xsd = ('<xs:schema xmlns:xs="http://www.w3.org/2001/XMLSchema" xmlns:t="urn:fam" targetNamespace="urn:fam" elementFormDefault="qualified"><xs:element name="root" type="t:T1"/>'
           '<xs:complexType name="T1"><xs:sequence><xs:element name="e" type="t:T2"/></xs:sequence></xs:complexType><xs:complexType name="T2"/></xs:schema>')
    zs = zeep.xsd.Schema(etree.fromstring(xsd.encode()))
    root = zs.get_element("{urn:fam}root")
    try:
        root.parse(etree.fromstring(b'<root xmlns="urn:fam"><e><X/></e></root>'), zs)
        return True
    except Exception:  # noqa
        return False
