"""C20 — call isolation: tie between lean/ZeepModel/Soap/Headers.lean and zeep (proxy, message building)."""
import copy
import io
import json
import re
import sys
import threading

from lxml import etree

from harness.core import Result
from harness import xmlcanon

LEAN_MODULES = ["ZeepProofs.C20"]
NS = "Zeep.Isolation."
THEOREMS = [NS + t for t in ("c20_no_caller_mutation", "c20_client_unchanged", "c20_history_independent", "c20_idempotent_build",
                             "c20_shallow_copy_counterexample")]
LEVEL = "proof"
MANIFEST = dict(
    engine="E: lean/ZeepModel/Soap/Headers.lean",
    technique="Lean 4 ownership model of the objects a call may write (merge of default and per-call headers, header serialisation with lxml's move-on-append) with theorems that every write targets a call-allocated object and that client state is unchanged, hence history independence by induction over call sequences + differential tie (shared client vs fresh clients, deep snapshots, threads)",
    text="c20_no_caller_mutation proves for every default/per-call header value that no caller-owned object is written; c20_client_unchanged and c20_history_independent prove that any call sequence (failing calls included) yields, call by call, the outcome of a fresh client; c20_idempotent_build follows. Tied by running call sequences (different operations, header forms: list of raw elements inside a caller document / dict / value objects / defaults, some calls raising) on one client and on fresh clients, comparing envelopes (ids blanked), HTTP headers and outcomes, deep-snapshotting every caller object before and after, building messages twice, and N threads x M calls on a shared client against an echoing transport with a tiny switch interval.",
    note="Partial: interference between threads through lxml objects and lazily cached properties is runtime behaviour; the concurrent clause is carried by the stress run (each caller gets its own reply, every message intact), the theorem covers the sequential semantics.",
    design_ref="DESIGN.md section 6, C20",
)
TRUSTED = ["copy.deepcopy copies lxml elements and value objects completely", "CPython GIL scheduling in the stress run"]
ASSUMPTIONS = ["the plugin configured by the tie writes only into the per-call http_headers dict it is handed (the documented plugin style)"]

ENV = "http://schemas.xmlsoap.org/soap/envelope/"

WSDL = """<?xml version="1.0"?>
<definitions xmlns="http://schemas.xmlsoap.org/wsdl/" xmlns:soap="http://schemas.xmlsoap.org/wsdl/soap/"
  xmlns:wsaw="http://www.w3.org/2006/05/addressing/wsdl" xmlns:xsd="http://www.w3.org/2001/XMLSchema" xmlns:tns="urn:t" targetNamespace="urn:t">
  <types><xsd:schema targetNamespace="urn:t" elementFormDefault="qualified" xmlns:tns="urn:t">
      <xsd:element name="in"><xsd:complexType><xsd:sequence><xsd:element name="k" type="xsd:string"/>
         <xsd:element name="items" type="xsd:int" minOccurs="0" maxOccurs="unbounded"/></xsd:sequence></xsd:complexType></xsd:element>
      <xsd:element name="bag"><xsd:complexType><xsd:sequence><xsd:element name="k" type="xsd:string"/>
         <xsd:choice minOccurs="0" maxOccurs="unbounded"><xsd:element name="x" type="xsd:int"/><xsd:element name="y" type="xsd:string"/></xsd:choice>
         <xsd:element name="tags" type="xsd:string" minOccurs="0" maxOccurs="unbounded"/></xsd:sequence></xsd:complexType></xsd:element>
      <xsd:element name="out" type="xsd:string"/>
      <xsd:element name="auth"><xsd:complexType><xsd:sequence><xsd:element name="user" type="xsd:string"/></xsd:sequence></xsd:complexType></xsd:element>
      <xsd:element name="trace" type="xsd:string"/></xsd:schema></types>
  <message name="mi"><part name="p" element="tns:in"/></message>
  <message name="mih"><part name="p" element="tns:in"/><part name="auth" element="tns:auth"/><part name="trace" element="tns:trace"/></message>
  <message name="mbag"><part name="p" element="tns:bag"/></message>
  <message name="mo"><part name="p" element="tns:out"/></message>
  <portType name="pt">
    <operation name="plain"><input message="tns:mi"/><output message="tns:mo"/></operation>
    <operation name="bagop"><input message="tns:mbag"/><output message="tns:mo"/></operation>
    <operation name="addressed"><input message="tns:mi" wsaw:Action="urn:act:addressed"/><output message="tns:mo"/></operation>
    <operation name="withheaders"><input message="tns:mih"/><output message="tns:mo"/></operation>
  </portType>
  <binding name="b" type="tns:pt"><soap:binding style="document" transport="http://schemas.xmlsoap.org/soap/http"/>
    <operation name="plain"><soap:operation soapAction="plain"/><input><soap:body use="literal"/></input><output><soap:body use="literal"/></output></operation>
    <operation name="bagop"><soap:operation soapAction="bag"/><input><soap:body use="literal"/></input><output><soap:body use="literal"/></output></operation>
    <operation name="addressed"><soap:operation soapAction="addr"/><input><soap:body use="literal"/></input><output><soap:body use="literal"/></output></operation>
    <operation name="withheaders"><soap:operation soapAction="wh"/><input><soap:body use="literal" parts="p"/>
       <soap:header message="tns:mih" part="auth" use="literal"/><soap:header message="tns:mih" part="trace" use="literal"/></input><output><soap:body use="literal"/></output></operation>
  </binding>
  <service name="svc"><port name="p" binding="tns:b"><soap:address location="http://h.example/s"/></port></service>
</definitions>"""


def _zeep():
    import zeep
    import zeep.exceptions
    import zeep.transports
    return zeep


class Mode:
    fail = False


def make_client(default_headers=None, plugins=None, echo=True):
    z = _zeep()
    import requests
    captured = []

    class T(z.transports.Transport):
        def post(self, address, message, headers):
            env = etree.fromstring(message)
            captured.append((address, env, dict(headers), threading.get_ident()))
            body = env.find("{%s}Body" % ENV)
            k = body[0][0].text if len(body) and len(body[0]) else ""
            r = requests.Response()
            r.encoding = "utf-8"
            r.headers["Content-Type"] = "text/xml"
            if k == "FAULT":
                r.status_code = 500
                r._content = ('<e:Envelope xmlns:e="%s"><e:Body><e:Fault><faultcode>c</faultcode><faultstring>boom</faultstring></e:Fault></e:Body></e:Envelope>' % ENV).encode()
            else:
                r.status_code = 200
                r._content = ('<e:Envelope xmlns:e="%s"><e:Body><out xmlns="urn:t">echo:%s</out></e:Body></e:Envelope>' % (ENV, k)).encode()
            return r
    c = z.Client(io.BytesIO(WSDL.encode()), transport=T(), plugins=plugins if plugins is not None else [])
    if default_headers is not None:
        c.set_default_soapheaders(default_headers)
    return c, captured


def blank_ids(env):
    e = copy.deepcopy(env)
    for m in e.iter("{http://www.w3.org/2005/08/addressing}MessageID"):
        m.text = "ID"
    return xmlcanon.node(e, strip_ws=False)


def snap(x):
    """deep structural snapshot of a caller object"""
    if isinstance(x, etree._Element):
        root = x.getroottree().getroot()
        return ("xml", etree.tostring(root), etree.tostring(x))
    if isinstance(x, dict):
        return ("dict", [(k, snap(v)) for k, v in x.items()])
    if isinstance(x, (list, tuple)):
        return ("list", [snap(v) for v in x])
    if hasattr(x, "__values__"):
        return ("obj", type(x).__name__, [(k, snap(v)) for k, v in x.__values__.items()])
    return ("val", repr(x))


def header_forms(client, i):
    """per-call `_soapheaders` in rotating forms; returns (value, model header value)"""
    form = i % 5
    if form == 0:
        return None, None
    if form == 1:
        doc = etree.fromstring('<callerdoc xmlns:c="urn:c"><c:Token>tok%d</c:Token><keep/></callerdoc>' % i)
        return [doc[0]], {"list": [[i * 10 + 1, "{urn:c}Token=tok%d" % i]]}
    if form == 2:
        e1 = etree.Element("{urn:c}A")
        e1.text = "a%d" % i
        e2 = etree.Element("{urn:c}B")
        return [e1, e2], {"list": [[i * 10 + 1, "{urn:c}A=a%d" % i], [i * 10 + 2, "{urn:c}B="]]}
    if form == 3:
        auth_t = client.get_element("{urn:t}auth")
        return [auth_t(user="u%d" % i)], {"list": [[i * 10 + 1, "{urn:t}auth/{urn:t}user=u%d" % i]]}
    return {"auth": {"user": "d%d" % i}, "trace": "t%d" % i}, {"dict": [["auth", [i * 10 + 1, "{urn:t}auth/{urn:t}user=d%d" % i]], ["trace", [i * 10 + 2, "{urn:t}trace=t%d" % i]]]}


def header_payloads(env):
    h = env.find("{%s}Header" % ENV)
    out = []
    if h is None:
        return out
    for c in h:
        if etree.QName(c.tag).namespace == "http://www.w3.org/2005/08/addressing":
            continue
        if len(c):
            out.append("%s/%s=%s" % (c.tag, c[0].tag, c[0].text or ""))
        else:
            out.append("%s=%s" % (c.tag, c.text or ""))
    return out


SEQS = [
    ["plain", "addressed", "plain", "withheaders", "plain"],
    ["addressed", "plain", "plain"],
    ["withheaders", "FAULT:plain", "withheaders", "addressed", "plain"],
    ["plain", "BADARG:plain", "plain", "FAULT:addressed", "plain", "withheaders"],
]
DEFAULTS = ["none", "list", "dict"]


class StampPlugin:
    """the documented plugin style: writes into the per-call http_headers dict it is handed"""

    def __new__(cls):
        z = _zeep()

        class _Stamp(z.Plugin):
            def egress(self, envelope, http_headers, operation, binding_options):
                body = envelope.find("{%s}Body" % ENV)
                k = body[0][0].text if len(body) and len(body[0]) else ""
                if k and k[-1] in "02468":
                    http_headers["X-Stamp"] = k
                return envelope, http_headers
        return _Stamp()


def call_block(client, i, variant):
    """the per-call settings override a caller wraps around call i (None = no block)"""
    import contextlib
    if variant == 0:
        return contextlib.nullcontext()
    m = (i + variant) % 3
    if m == 1:
        return client.settings(extra_http_headers={"X-Call": "c%d" % i})
    if m == 2:
        return client.settings(raw_response=True)
    return contextlib.nullcontext()


def do_call(client, opspec, i, hv, variant=0):
    with call_block(client, i, variant):
        out, owned = _do_call(client, opspec, i, hv)
    if out[0] == "return" and hasattr(out[1], "status_code"):
        out = ("raw", out[1].content)
    return out, owned


def _do_call(client, opspec, i, hv):
    z = _zeep()
    fault = opspec.startswith("FAULT:")
    bad = opspec.startswith("BADARG:")
    op = opspec.split(":")[-1]
    args = {"k": "FAULT" if fault else "k%d" % i, "items": [i, i + 1]}
    kwargs = dict(args)
    if bad:
        kwargs["nonexistent"] = 1
    if hv is not None:
        kwargs["_soapheaders"] = hv
    owned = [args["items"], kwargs, hv]
    try:
        r = getattr(client.service, op)(**kwargs)
        return ("return", r), owned
    except z.exceptions.Fault as f:
        return ("fault", f.message), owned
    except TypeError as e:
        return ("typeerror", None), owned
    except ValueError as e:
        return ("valueerror", str(e)[:60]), owned
    except Exception as e:  # noqa
        return ("other", type(e).__name__ + str(e)[:80]), owned


def default_value(kind, client):
    if kind == "none":
        return None, None
    if kind == "list":
        d = etree.fromstring('<defaults xmlns:c="urn:c"><c:Default>dflt</c:Default></defaults>')
        return [d[0]], {"list": [[1, "{urn:c}Default=dflt"]]}
    return {"trace": "default-trace"}, {"dict": [["trace", [1, "{urn:t}trace=default-trace"]]]}


def run_sequences(ctx, res, pending):
    for variant in (0, 1, 2):
        _run_sequences(ctx, res, pending, variant)


def _run_sequences(ctx, res, pending, variant):
    """variant 0: plain calls; 1, 2: calls wrapped in per-call settings blocks (extra_http_headers / raw_response, two
    phases) on a client whose plugin stamps an HTTP header on some calls"""
    for si, seq in enumerate(SEQS):
        for dk in DEFAULTS:
            plugins_list = [StampPlugin()] if variant else []
            plugins_before = list(plugins_list)
            shared, cap_s = make_client(plugins=plugins_list)
            dv, dmodel = default_value(dk, shared)
            if dv is not None:
                shared.set_default_soapheaders(dv)
            dsnap = snap(dv)
            settings_before = repr(shared.settings)
            model_calls = []
            for i, opspec in enumerate(seq):
                op = opspec.split(":")[-1]
                hv, hmodel = header_forms(shared, i + si)
                if dk == "dict" and isinstance(hv, list) or dk == "list" and isinstance(hv, dict):
                    pass     # incompatible forms: zeep raises ValueError (a failing call in the sequence)
                if isinstance(hv, dict) and op != "withheaders":
                    hv, hmodel = None, None
                if dk == "dict" and op != "withheaders":
                    # dict defaults need declared headers: such a call raises; keep it as a failing call
                    pass
                before = snap(hv)
                del cap_s[:]
                out_s, owned = do_call(shared, opspec, i, hv, variant)
                msg_s = [(a, blank_ids(e), sorted(h.items())) for a, e, h, _ in cap_s]
                # the same call on a fresh client
                fresh, cap_f = make_client(plugins=[StampPlugin()] if variant else [])
                dv2, _ = default_value(dk, fresh)
                if dv2 is not None:
                    fresh.set_default_soapheaders(dv2)
                hv2, _ = header_forms(fresh, i + si)
                if isinstance(hv2, dict) and op != "withheaders":
                    hv2 = None
                out_f, _ = do_call(fresh, opspec, i, hv2, variant)
                msg_f = [(a, blank_ids(e), sorted(h.items())) for a, e, h, _ in cap_f]
                case = dict(sequence=seq, position=i, defaults=dk, header_form=(i + si) % 5, settings_blocks=variant)
                res.case(key=(si, dk, i, variant), nontrivial=True)
                res.count("settings-blocks:%d" % variant)
                res.count("op:" + opspec.split(":")[0] if ":" in opspec else "op:" + op)
                res.count("defaults:" + dk)
                fail = None
                if (out_s[0], str(out_s[1])) != (out_f[0], str(out_f[1])):
                    fail = "outcome on the shared client %r differs from a fresh client %r" % (out_s, out_f)
                elif msg_s != msg_f:
                    fail = "message on the shared client differs from the one a fresh client produces for the same call"
                elif snap(hv) != before:
                    fail = "the call modified the caller's _soapheaders value / the document its elements live in"
                elif snap(dv) != dsnap:
                    fail = "the call modified the default soap headers"
                elif plugins_list != plugins_before or shared.plugins is not plugins_list:
                    fail = "the call modified the client's plugin list: %r" % (shared.plugins,)
                elif repr(shared.settings) != settings_before:
                    fail = "the call modified the settings"
                elif owned[0] != [i, i + 1]:
                    fail = "the call modified an argument list"
                if fail:
                    res.failures.append(dict(what=fail, case=case))
                    break
                if variant:
                    continue        # the ownership model has no settings blocks: these runs are judged by shared-vs-fresh only
                if cap_s and out_s[0] in ("return", "fault"):
                    model_calls.append((dict(op=op, args="k", headers=hmodel), header_payloads(cap_s[0][1]), case))
                elif out_s[0] == "valueerror":
                    model_calls.append((dict(op=op, args="k", headers=hmodel), None, case))
            if model_calls and not variant:
                pending.append(({"op": "isolation.run", "default_headers": dmodel, "calls": [m[0] for m in model_calls]},
                                [m[1] for m in model_calls], dict(sequence=seq, defaults=dk)))


def build_twice(ctx, res):
    client, _ = make_client()
    for i in range(5):
        hv, _ = header_forms(client, i)
        if isinstance(hv, dict):
            op = "withheaders"
        else:
            op = ["plain", "addressed", "withheaders"][i % 3]
        kw = {"k": "x", "items": [1]}
        if hv is not None:
            kw["_soapheaders"] = hv
        first = client.create_message(client.service, op, **kw)
        first_s = blank_ids(first)
        second = client.create_message(client.service, op, **kw)
        res.case(key=("twice", i))
        res.count("build-twice")
        if blank_ids(second) != first_s:
            res.failures.append(dict(what="building the message twice from the same inputs gives different XML", case=dict(kind="twice", form=i % 5, op=op)))
        elif blank_ids(first) != first_s:
            res.failures.append(dict(what="the first message changed when the second was built", case=dict(kind="twice", form=i % 5, op=op)))


def inplace_history(ctx, res):
    """value objects built without their repeated content and then filled in place (obj._value_1.append(...), obj.tags.append(...):
    the documented way) over a history of calls on one client; every call is compared with the same call on a fresh client"""
    def b1(T):
        o = T(k="first")
        o._value_1.append({"x": 1})
        o._value_1.append({"y": "why"})
        o.tags.append("t1")
        return dict(k=o.k, _value_1=o._value_1, tags=o.tags)

    def b3(T):
        o = T(k="third")
        return dict(k=o.k, _value_1=o._value_1, tags=o.tags)

    def b4(T):
        o = T(k="fourth")
        o.tags.append("t4")
        return dict(k=o.k, _value_1=o._value_1, tags=o.tags)
    builders = [("filled-in-place", b1), ("choice-unset", lambda T: dict(k="second")), ("built-empty", b3), ("only-tags-filled", b4),
                ("choice-unset-again", lambda T: dict(k="fifth"))]
    shared, cap_s = make_client()
    for i, (label, build) in enumerate(builders):
        fresh, cap_f = make_client()          # knows nothing of the earlier steps
        del cap_s[:]
        res.case(key=("inplace", i), nontrivial=True)
        res.count("inplace-history-step")
        case = dict(kind="inplace-history", step=i, label=label)
        try:
            shared.service.bagop(**build(shared.get_element("{urn:t}bag")))
            fresh.service.bagop(**build(fresh.get_element("{urn:t}bag")))
        except Exception as e:  # noqa
            res.failures.append(dict(what="call with a value filled in place raised %s: %s" % (type(e).__name__, e), case=case))
            return
        ms = [blank_ids(e) for _, e, _, _ in cap_s]
        mf = [blank_ids(e) for _, e, _, _ in cap_f]
        if ms != mf:
            res.failures.append(dict(what="message on the shared client differs from the one a fresh client produces for the same call (%s): "
                                          "content the caller never supplied / content of an earlier call" % label, case=case,
                                     shared=json.dumps(ms)[:400], fresh=json.dumps(mf)[:400]))
            return


def overlap_probe(ctx, res):
    """deterministic two-thread schedules around per-call settings blocks on one client: thread A is inside its block,
    thread B enters and leaves a block for the same option (or calls without one), then A calls.  Each call must see its
    own thread's override and only that."""
    client, captured = make_client()
    for option, a_val, b_val in (("raw_response", True, True), ("raw_response", True, None),
                                 ("extra_http_headers", {"X-T": "A"}, {"X-T": "B"}), ("extra_http_headers", {"X-T": "A"}, None)):
        for b_exits_first in (True, False):
            ev = {k: threading.Event() for k in ("a_in", "b_done", "a_done")}
            out = {}

            def call(tag):
                del_before = len(captured)
                r = client.service.plain(k=tag, items=[1])
                hdrs = [h for _, env, h, _ in captured[del_before:] if env.find("{%s}Body" % ENV)[0][0].text == tag]
                return r, (hdrs[0] if hdrs else {})

            def thread_a():
                with client.settings(**{option: a_val}):
                    ev["a_in"].set()
                    if b_exits_first:
                        ev["b_done"].wait(10)
                    out["A"] = call("A")
                ev["a_done"].set()

            def thread_b():
                import contextlib
                ev["a_in"].wait(10)
                blk = client.settings(**{option: b_val}) if b_val is not None else contextlib.nullcontext()
                with blk:
                    if not b_exits_first:
                        ev["a_done"].wait(10)
                    out["B"] = call("B")
                ev["b_done"].set()
            ta, tb = threading.Thread(target=thread_a), threading.Thread(target=thread_b)
            ta.start(); tb.start(); ta.join(20); tb.join(20)
            res.case(key=("overlap", option, repr(b_val), b_exits_first), nontrivial=True)
            res.count("overlap-probe")
            case = dict(kind="overlap", option=option, a=repr(a_val), b=repr(b_val), b_exits_first=b_exits_first)
            fail = None
            for who, val in (("A", a_val), ("B", b_val)):
                if who not in out:
                    fail = "thread %s did not finish" % who
                    break
                r, h = out[who]
                if option == "raw_response":
                    is_raw = hasattr(r, "status_code")
                    if is_raw != bool(val):
                        fail = "thread %s %s raw_response=True but received %s" % (who, "set" if val else "did not set", "a raw response" if is_raw else "a parsed value")
                        break
                else:
                    want = (val or {}).get("X-T")
                    if h.get("X-T") != want:
                        fail = "thread %s: request carried X-T=%r, its own override says %r" % (who, h.get("X-T"), want)
                        break
            if fail:
                res.failures.append(dict(what="concurrent per-call settings blocks interfered: " + fail, case=case))


def thread_stress(ctx, res):
    d = etree.fromstring('<defaults xmlns:c="urn:c"><c:Default>dflt</c:Default></defaults>')
    client, captured = make_client(default_headers=[d[0]])
    nthreads, ncalls = ctx.n(6, 12), ctx.n(40, 200)
    errors, wrong = [], []
    old = sys.getswitchinterval()
    sys.setswitchinterval(1e-6)

    def worker(t):
        import contextlib
        for j in range(ncalls):
            key = "T%d-%d" % (t, j)
            mode = (t + j) % 3       # 0: no block; 1: raw_response block; 2: extra_http_headers block -- overlapping between threads
            try:
                e = etree.Element("{urn:c}Per")
                e.text = key
                blk = (contextlib.nullcontext() if mode == 0 else client.settings(raw_response=True) if mode == 1
                       else client.settings(extra_http_headers={"X-T": key}))
                with blk:
                    r = client.service.plain(k=key, items=[j], _soapheaders=[e])
                if mode == 1:
                    if not hasattr(r, "status_code") or ("echo:" + key).encode() not in r.content:
                        wrong.append((key, "raw_response block: got %r" % (r,)))
                elif r != "echo:" + key:
                    wrong.append((key, repr(r)[:60]))
            except Exception as ex:  # noqa
                errors.append(repr(ex))
    ts = [threading.Thread(target=worker, args=(t,)) for t in range(nthreads)]
    try:
        for t in ts:
            t.start()
        for t in ts:
            t.join()
    finally:
        sys.setswitchinterval(old)
    res.case(key=("threads", nthreads, ncalls))
    res.count("thread-calls", nthreads * ncalls)
    bad_msgs = 0
    for a, env, h, tid in captured:
        hp = header_payloads(env)
        body = env.find("{%s}Body" % ENV)
        key = body[0][0].text
        t_, j_ = key[1:].split("-")
        want_xt = key if (int(t_) + int(j_)) % 3 == 2 else None
        if hp != ["{urn:c}Default=dflt", "{urn:c}Per=%s" % key] or h.get("X-T") != want_xt:
            bad_msgs += 1
    if errors or wrong or bad_msgs or len(captured) != nthreads * ncalls:
        res.failures.append(dict(what="concurrent calls on a shared client interfered: %d errors, %d wrong results, %d messages with wrong headers"
                                 % (len(errors), len(wrong), bad_msgs), case=dict(kind="threads", threads=nthreads, calls=ncalls), errors=errors[:3]))


def run(ctx):
    res = Result()
    import logging
    logging.getLogger("zeep").setLevel(logging.CRITICAL)
    pending = []
    run_sequences(ctx, res, pending)
    build_twice(ctx, res)
    overlap_probe(ctx, res)
    inplace_history(ctx, res)
    from harness.props import c05
    c05.dataset_histories(ctx, res)          # replies that describe their own payload: a call returns what *its* reply says
    if not res.failures:
        # the stress runs in a child process: lxml may crash the interpreter when elements are shared between threads
        import json as _json
        import subprocess
        from harness.core import VERIF
        code = ("import sys, json; sys.path.insert(0, %r); sys.dont_write_bytecode = True\n"
                "from harness.core import Ctx, Result\nfrom harness.props import c20\n"
                "ctx = Ctx('C20', %r, %d); r = Result(); c20.thread_stress(ctx, r)\n"
                "print('STRESS ' + json.dumps(dict(failures=r.failures, hist=r.hist, n=r.evaluations)))" % (str(VERIF), ctx.tier, ctx.seed))
        p = subprocess.run([sys.executable, "-c", code], capture_output=True, text=True, timeout=900)
        line = next((l for l in p.stdout.splitlines() if l.startswith("STRESS ")), None)
        res.case(key=("threads", ctx.tier))
        if p.returncode != 0 or line is None:
            res.failures.append(dict(what="thread stress on a shared client crashed the interpreter (exit %s)" % p.returncode,
                                     case=dict(kind="threads"), stderr=p.stderr[-300:]))
        else:
            d = _json.loads(line[7:])
            res.failures += d["failures"]
            for k, v in d["hist"].items():
                res.count(k, v)
    if ctx.model and pending:
        outs = ctx.model.run([p[0] for p in pending])
        for (mop, impl, case), mo in zip(pending, outs):
            if "err" in mo:
                res.disagreements.append(dict(relation="driver error", case=case, model=mo))
                continue
            for m, i in zip(mo["ok"], impl):
                if i is None:
                    if "error" not in m:
                        res.disagreements.append(dict(relation="Isolation.call vs call (error expected)", case=case, model=m, impl=i))
                elif "error" in m or (sorted(m["headers"]) != sorted(i) if mop["default_headers"] and "dict" in mop["default_headers"] else m["headers"] != i) or m["caller_writes"] != 0:
                    res.disagreements.append(dict(relation="Isolation.call header payloads vs captured Header", case=case, model=m, impl=i))
    res.sample(dict(sequence=SEQS[2], defaults="list"))
    res.programs = len(SEQS) * len(DEFAULTS)
    res.rule = ("4 call sequences (plain / WS-Addressing / declared-header operations, faulting and TypeError-raising calls) x default headers "
                "none / list of raw elements living in a caller document / dict, per-call headers rotating over none, element inside a caller "
                "document, two elements, value object, dict; every call also made on a fresh client; caller objects deep-snapshotted; the same sequences again "
                "with calls wrapped in per-call settings blocks (extra_http_headers / raw_response, two phases) on a client with a plugin that stamps "
                "an HTTP header on some calls; messages built twice; thread stress on one client with overlapping raw_response / extra_http_headers "
                "blocks (each caller must see its own override and only its own). distinct = distinct (sequence, defaults, position)")
    return res


def search(ctx):
    return run(ctx)


def replay(ctx, payload):
    r = run(ctx)
    return (not r.failures), "rerun: %d failures" % len(r.failures)


def replay_finding(ctx, finding):
    return False
