"""C08 — decoding always terminates within bounded work (engine A)."""
import copy
import json

from lxml import etree

from harness.core import Result
from harness import xsdgen, xmlcanon, enginea
from harness.props import c03

LEAN_MODULES = ["ZeepProofs.C08", "ZeepProofs.C08Reply"]
NS = "Zeep.Xsd."
THEOREMS = [NS + t for t in ("c08_deque_never_grows", "c08_element_rounds", "c08_sequence_rounds", "c08_choice_rounds", "c08_group_rounds",
                             "c08_choice_progress", "c08_alloc_unbounded", "shrinks")] + [
    "Zeep.Soap.c08_subcodes_fuel_independent", "Zeep.Soap.c08_subcodes_length", "Zeep.MultiRef.c08_multiref_fuel_independent"]
LEVEL = "proof"
MANIFEST = dict(
    engine="A: lean/ZeepModel/Xsd/Parse.lean (+ Soap/Reply.lean, MultiRef.lean for the loops around the decoder)",
    technique="Lean 4: the model decoder is total (structural recursion); by mutual induction over its eight functions, for every particle, mode, deque and every round limit (maxOccurs): the deque never grows and rounds + |rest| <= |deque| for element / sequence / choice loops (one more for group) + exact equality of counted decode calls between zeep (sys.setprofile) and the model, and an interpreter call-event budget, on valid, mutated and soup documents",
    text="Around the decoder (ZeepProofs/C08Reply.lean): the SOAP 1.2 Subcode walk makes at most depth(fault) steps and returns at most that many subcodes (c08_subcodes_fuel_independent, c08_subcodes_length), and dereferencing an out-lined rpc/encoded reply needs recursion no deeper than the inline tree (c08_multiref_fuel_independent); whole replies (multiRef graphs incl. cycles, subcode chains, Subcodes without Value) run through the client under an event budget. The progress theorems are independent of maxOccurs (the round limit is universally quantified, 2^31-1 included), hold in both modes and for arbitrary nesting of sequence / choice / all / group: no document can make a repetition loop run more rounds than it has nodes, nor allocate more result entries. Tied on every run by counting parse_xmlelements / parse_xmlelement call events in zeep with sys.setprofile and requiring equality with the model's counter, plus a budget of 300 interpreter call events per (document node x schema particle); families that would blow up (unbounded groups followed by foreign elements, choices nested 14 deep, large finite maxOccurs) are included.",
    note="Partial: a closed-form polynomial bound on the number of calls is not proved in Lean (the progress invariants it would rest on are); the polynomial budget is enforced by the tie. Values decoded for repeated xsd:group references are not compared (zeep's value construction for them raises; outside F-core).",
    design_ref="DESIGN.md section 6, C08",
)
TRUSTED = c03.TRUSTED + ["sys.setprofile call events as the deterministic work measure"]
ASSUMPTIONS = []


def schema_size(ty):
    n = 1
    for k, v in ty.items():
        if isinstance(v, dict):
            n += schema_size(v)
        elif isinstance(v, list):
            n += sum(schema_size(x) for x in v if isinstance(x, dict))
    return n


def doc_size(d):
    return sum(1 for _ in d.iter())


def mutate(doc, rng):
    d = copy.deepcopy(doc)
    els = [e for e in d.iter()]
    kind = rng.choice(["insert", "delete", "dup", "swap", "soup"])
    if kind == "insert":
        parent = rng.choice(els)
        x = etree.Element(rng.choice(["{urn:zzz}stranger", "stranger", "{%s}stranger" % xsdgen.TNS]))
        x.text = "s"
        parent.insert(rng.randrange(len(parent) + 1), x)
        return d, kind
    cands = [e for e in els if e.getparent() is not None]
    if not cands:
        return d, "none"
    if kind == "soup":
        parent = rng.choice(els)
        for _ in range(rng.randrange(2, 9)):
            parent.insert(rng.randrange(len(parent) + 1), copy.deepcopy(rng.choice(cands)))
        return d, kind
    e = rng.choice(cands)
    p = e.getparent()
    if kind == "delete":
        p.remove(e)
    elif kind == "dup":
        p.insert(p.index(e), copy.deepcopy(e))
    else:
        j = rng.randrange(len(p))
        p.remove(e)
        p.insert(j, e)
    return d, kind


def check_doc(ctx, res, case, d, ty, kind, pending, compare_calls=True):
    S = schema_size(ty)
    D = doc_size(d)
    budget = 300 * D * S + 5000
    for strict in (True, False):
        r = enginea.impl_parse(case, d, strict, budget=budget)
        c = dict(xsd=case.xsd, document=etree.tostring(d).decode()[:4000], strict=strict, mutation=kind, doc_nodes=D, schema_size=S, budget=budget)
        if hasattr(case, "seed"):
            c["seed"] = case.seed
            c["profile"] = case.profile
        res.case(key=(case.xsd, c["document"], strict), nontrivial=True)
        res.count("doc:" + kind)
        res.count("outcome:" + r["outcome"].split(":")[0])
        res.extra["max_events_per_unit"] = max(res.extra.get("max_events_per_unit", 0), round(r["events"] / (D * S), 2))
        if r["outcome"] == "BUDGET":
            res.failures.append(dict(what="decoding did not finish within %d interpreter call events (%d document nodes x %d schema size x 300)" % (budget, D, S), case=c))
            continue
        if r["outcome"] == "RecursionError":
            res.failures.append(dict(what="decoding hit the recursion limit", case=c))
            continue
        if compare_calls:
            pending.append(({"op": "xsd.parse", "mode": "strict" if strict else "lax", "ty": ty, "node": xmlcanon.node(d, strip_ws=True)}, r, ty, c))


def run(ctx):
    res = Result()
    import logging
    logging.getLogger("zeep").setLevel(logging.CRITICAL)
    pending = []
    rng = ctx.rng
    # 1. generated schemas (core and wide), valid and mutated documents
    for profile, n in (("core", ctx.n(50, 800)), ("wide", ctx.n(50, 800))):
        for i in range(n):
            seed = ctx.seed * 100000 + i
            try:
                case = enginea.Case(seed, profile)
            except etree.XMLSchemaParseError:
                res.count("schema-rejected-by-libxml2")
                continue
            res.programs += 1
            for doc in case.documents(2):
                xsitype = doc.attrib.pop("data-xsitype", None) is not None
                if not case.validator.validate(doc):
                    continue
                ty = case.model_type(xsdgen.height(doc) + 3)
                cmp_ = profile == "core" and not xsitype       # xsi:type dispatch is not part of the model
                check_doc(ctx, res, case, doc, ty, "valid", pending, compare_calls=cmp_)
                for _ in range(2):
                    d, kind = mutate(doc, case.rng)
                    ty2 = case.model_type(xsdgen.height(d) + 3)
                    check_doc(ctx, res, case, d, ty2, kind, pending, compare_calls=cmp_)
    # 2. group family: unbounded / large finite repetition followed by something the group cannot consume
    for mn, mx in ((0, None), (1, None), (0, 100000000), (1, 3)):
        case = enginea.Case(0, "group", src=xsdgen.group_schema(mn, mx))
        res.programs += 1
        for body in (["a", "b", "tail"], ["a", "b", "zzz"], ["a", "a", "b", "a", "tail"], ["zzz"], [], ["a", "b"] * 6 + ["tail"], ["a", "b", "a", "zzz", "a"]):
            d = etree.Element("{%s}root" % xsdgen.TNS)
            for t in body:
                etree.SubElement(d, "{%s}%s" % (xsdgen.TNS, t)).text = "v"
            check_doc(ctx, res, case, d, case.model_type(3), "group-family", pending, compare_calls=True)
    # 2b. repeating particles that can match empty, followed by what they cannot consume
    for name, src in xsdgen.optional_only_schemas():
        try:
            case = enginea.Case(0, "optional-only:" + name, src=src)
        except etree.XMLSchemaParseError:
            res.count("schema-rejected-by-libxml2")
            continue
        res.programs += 1
        for body in ([], ["tail"], ["a", "b", "tail"], ["zzz"], ["a", "zzz", "a"], ["b", "a", "tail"], ["a", "a", "b", "tail"], ["a", "b"] * 5 + ["zzz"], ["tail", "a"]):
            d = etree.Element("{%s}root" % xsdgen.TNS)
            for t in body:
                etree.SubElement(d, "{%s}%s" % (xsdgen.TNS, t)).text = "v"
            check_doc(ctx, res, case, d, case.model_type(3), "optional-only", pending, compare_calls=True)
    # 2c. too-short runs of an element with minOccurs >= 2 and a huge maxOccurs; repeating wildcards over children that decode to None
    for name, src in xsdgen.short_run_schemas():
        case = enginea.Case(0, name, src=src)
        res.programs += 1
        for body in (["a", "tail"], ["a", "zzz"], ["a"], ["a", "a", "tail"], ["tail"], ["a", "b", "a"], ["a", "tail", "a", "a"], []):
            d = etree.Element("{%s}root" % xsdgen.TNS)
            for t in body:
                etree.SubElement(d, "{%s}%s" % (xsdgen.TNS, t)).text = "v"
            check_doc(ctx, res, case, d, case.model_type(3), "short-run", pending, compare_calls=True)
    for mx in (None, 100000000, 3):
        case = enginea.Case(0, "wildcard", src=xsdgen.wildcard_schema(mx))
        res.programs += 1
        XSI = "http://www.w3.org/2001/XMLSchema-instance"
        for body in (["a", "root"], ["a", "root", "zzz"], ["a", "root", "root"], ["a", "zzz", "root"], ["a", "nil"], ["a", "nil", "root", "zzz", "nil"], ["a"] + ["root"] * 6, ["root"]):
            d = etree.Element("{%s}root" % xsdgen.TNS, nsmap={"xsi": XSI, "xs": "http://www.w3.org/2001/XMLSchema"})
            for t in body:
                if t == "nil":
                    e = etree.SubElement(d, "{%s}whatever" % xsdgen.TNS)
                    e.set("{%s}nil" % XSI, "true")
                    e.set("{%s}type" % XSI, "xs:int")
                elif t == "root":
                    etree.SubElement(d, "{%s}root" % xsdgen.TNS)        # a declared global element, empty: decodes to None
                else:
                    etree.SubElement(d, "{%s}%s" % (xsdgen.TNS, t)).text = "v"
            check_doc(ctx, res, case, d, case.model_type(3), "wildcard-none-children", pending, compare_calls=False)
    # 3. nested choices: depth up to 14, documents picking the innermost / middle / outermost branch
    for depth in (3, 8, 14):
        for rep in (False, True):
            case = enginea.Case(0, "nested-choice", src=xsdgen.nested_choice_schema(depth, rep))
            res.programs += 1
            for pick in ([depth], [depth // 2], [0], [depth, depth] if rep else [1], [depth, 0, depth] if rep else [depth - 1]):
                d = etree.Element("{%s}root" % xsdgen.TNS)
                for pk in pick:
                    etree.SubElement(d, "{%s}x%d" % (xsdgen.TNS, pk)).text = "v"
                check_doc(ctx, res, case, d, case.model_type(3), "nested-choice", pending, compare_calls=True)
    reply_family(ctx, res)
    xsitype_chain_family(ctx, res)
    all_duplicate_family(ctx, res)
    dataset_growth_history(ctx, res)
    # model: exact equality of the number of decode calls (and of outcomes / values where comparable)
    if ctx.model and pending:
        outs = ctx.model.run([p[0] for p in pending])
        for (mop, r, ty, c), mo in zip(pending, outs):
            m = mo.get("ok")
            if m is None:
                res.disagreements.append(dict(relation="driver error", case=c, model=mo))
                continue
            mout = m.get("error", "ok")
            if mout == "outOfGas":
                res.disagreements.append(dict(relation="model ran out of gas", case=c))
            elif mout == "ok" and r["outcome"] == "ok" and m["calls"] != r["calls"]:
                res.disagreements.append(dict(relation="number of decode calls (model vs sys.setprofile on zeep)", case=c, model=m["calls"], impl=r["calls"]))
            elif mout != r["outcome"] and not (r["outcome"].startswith("Other") or r["outcome"] == "TypeError" or mout == "TypeError"):
                res.disagreements.append(dict(relation="decode outcome", case=c, model=mout, impl=r["outcome"]))
    res.sample(dict(family="group", schema=xsdgen.print_schema(xsdgen.group_schema(0, None))[:500], document="<root><a/><b/><zzz/></root>"))
    res.rule = ("generated core and WIDE schemas (groups with any bounds, wildcards) x valid documents and mutations (insert / delete / duplicate / "
                "reorder / soup of copied elements); repeating sequences / choices whose content can match empty (unbounded, 10^8, 3) x documents with "
                "foreign or reordered leftovers; the xsd:group family (unbounded, 10^8, bounded) x documents with a foreign tail; choices nested "
                "3 / 8 / 14 deep with and without repetition; whole replies through the client (rpc/encoded multiRef graphs: chain, self cycle, tail "
                "pointing back, mutual, dangling, fan-out; SOAP 1.2 faults with 60 nested subcodes, Subcodes without / with empty Value, siblings, "
                "unbound prefixes) under a flat event budget - a cyclic multiRef graph ends with RecursionError, which counts as an error after "
                "bounded work; every document in both modes, work counted in interpreter call events against a budget "
                "and in decode calls against the model. distinct = distinct (schema, document, mode)")
    return res


def reply_family(ctx, res):
    """whole replies through client.service.<op>(): the work done before and around the schema decoder (multiRef
    dereferencing of rpc/encoded replies, the fault field extraction) must end as well, whatever the reply looks like"""
    from . import c19, c06
    ENV11 = c19.ENV
    rpc = c19.make_client()

    def env11(result_inner, multirefs=""):
        return ('<e:Envelope xmlns:e="%s"><e:Body><r:getResponse xmlns:r="urn:rpc">%s</r:getResponse>%s</e:Body></e:Envelope>' % (ENV11, result_inner, multirefs)).encode()
    leaf = "<s>s</s><n>1</n>"
    mid = "<leaf>%s</leaf><tag>t</tag>" % leaf
    replies = [
        ("multiref-acyclic-chain", env11('<result href="#id0"/>', '<multiRef id="id0"><a href="#id1"/><b href="#id2"/><c>c</c></multiRef>'
                                         '<multiRef id="id1">%s</multiRef><multiRef id="id2">%s</multiRef>' % (mid, leaf))),
        ("multiref-self-cycle", env11('<result href="#id0"/>', '<multiRef id="id0"><a href="#id0"/><b>%s</b><c>c</c></multiRef>' % leaf)),
        ("multiref-tail-points-back", env11('<result href="#id0"/>', '<multiRef id="id0"><a href="#id1"/><b>%s</b><c>c</c></multiRef>'
                                            '<multiRef id="id1"><leaf href="#id2"/><tag>t</tag></multiRef><multiRef id="id2"><s>s</s><n>1</n><deep href="#id1"/></multiRef>' % leaf)),
        ("multiref-mutual", env11('<result><a href="#id1"/><b href="#id2"/><c>c</c></result>',
                                  '<multiRef id="id1"><leaf href="#id2"/><tag>t</tag></multiRef><multiRef id="id2"><s>s</s><n>1</n><deep href="#id1"/></multiRef>')),
        ("multiref-dangling", env11('<result href="#nowhere"/>', '<multiRef id="id0">%s</multiRef>' % leaf)),
        ("multiref-fanout", env11('<result><a href="#id1"/><b>%s</b><c>c</c><d href="#id1"/></result>' % leaf,
                                  '<multiRef id="id1"><leaf href="#id2"/><tag>t</tag>%s</multiRef><multiRef id="id2">%s</multiRef>' % ('<more href="#id2"/>' * 40, leaf))),
    ]
    for name, content in replies:
        c19.Script.content, c19.Script.ctype = content, "text/xml"
        budget = 2000000
        outcome, events, v = enginea.budgeted(lambda: rpc.service.get("x"), budget)
        res.case(key=("reply", name), nontrivial=True)
        res.count("reply:" + name.split("-")[0])
        res.count("reply-outcome:" + outcome)
        if outcome == "BUDGET":
            res.failures.append(dict(what="a %d byte reply kept the client busy for more than %d interpreter call events" % (len(content), budget),
                                     case=dict(kind="reply", name=name, reply=content.decode())))
    clients = {True: c06.make_client(True), False: c06.make_client(False)}
    E12 = c06.ENV["1.2"]

    def fault12(code_inner, status):
        return status, ('<e:Envelope xmlns:e="%s" xmlns:s="urn:sub"><e:Body><e:Fault><e:Code><e:Value>e:Receiver</e:Value>%s</e:Code>'
                        '<e:Reason><e:Text xml:lang="en">r</e:Text></e:Reason></e:Fault></e:Body></e:Envelope>' % (E12, code_inner)).encode()
    sub = lambda inner, value="<e:Value>s:C</e:Value>": "<e:Subcode>%s%s</e:Subcode>" % (value, inner)   # noqa
    deep = ""
    for _ in range(60):
        deep = sub(deep)
    faults = [("subcode-chain-60", fault12(deep, 500)), ("subcode-without-value", fault12(sub(sub(""), value=""), 500)),
              ("subcode-empty-value", fault12(sub("", value="<e:Value/>"), 500)), ("subcode-bare-200", fault12("<e:Subcode/>", 200)),
              ("subcode-valueless-wrapper", fault12(sub(sub(sub("")), value=""), 400)),
              ("subcode-unbound-prefix", fault12(sub("", value="<e:Value>zz:C</e:Value>"), 500)),
              ("subcode-siblings", fault12(sub("") + sub("") + sub(""), 500)),
              ("code-without-value", (500, ('<e:Envelope xmlns:e="%s"><e:Body><e:Fault><e:Code/><e:Reason/></e:Fault></e:Body></e:Envelope>' % E12).encode()))]
    for name, (status, content) in faults:
        for strict in (False, True):
            c06.Script.status, c06.Script.ctype, c06.Script.content = status, "application/soap+xml; charset=utf-8", content
            budget = 200000
            outcome, events, v = enginea.budgeted(lambda: clients[strict].bind("svc", "p12").op("x"), budget)
            res.case(key=("reply", name, strict), nontrivial=True)
            res.count("reply:fault12")
            res.count("reply-outcome:" + outcome)
            if outcome == "BUDGET":
                res.failures.append(dict(what="a %d byte fault reply kept the client busy for more than %d interpreter call events" % (len(content), budget),
                                         case=dict(kind="reply", name=name, strict=strict, status=status, reply=content.decode())))


CHAIN_XSD = ('<xs:schema xmlns:xs="http://www.w3.org/2001/XMLSchema" xmlns:t="urn:chain" targetNamespace="urn:chain" elementFormDefault="qualified">'
             '<xs:complexType name="Node"><xs:sequence><xs:element name="label" type="xs:string"/><xs:element name="child" type="t:Node" minOccurs="0"/></xs:sequence></xs:complexType>'
             '<xs:complexType name="NodeX"><xs:complexContent><xs:extension base="t:Node"><xs:sequence><xs:element name="x" type="xs:int" minOccurs="0"/></xs:sequence></xs:extension></xs:complexContent></xs:complexType>'
             '<xs:element name="root" type="t:Node"/></xs:schema>')


def xsitype_chain_family(ctx, res):
    """documents nested n deep through a recursive type, every level announcing a derived type with xsi:type, valid or with an
    undeclared element at the bottom: the work must grow with the size of the document, not with 2^depth"""
    import zeep.xsd
    import zeep.settings
    XSI = "http://www.w3.org/2001/XMLSchema-instance"
    for depth in (2, 6, 10, 14, 18, 24):
        for bottom, bname in (("", "valid"), ('<c:zzz xmlns:c="urn:chain">stray</c:zzz>', "stray-at-the-bottom"), ('<c:x xmlns:c="urn:chain">not-a-number</c:x>', "bad-leaf-at-the-bottom")):
            inner = bottom
            for i in range(depth):
                inner = '<c:child xsi:type="c:NodeX"><c:label>l%d</c:label>%s</c:child>' % (i, inner) if i else \
                        '<c:child xsi:type="c:NodeX"><c:label>l0</c:label>%s</c:child>' % bottom
            text = '<c:root xmlns:c="urn:chain" xmlns:xsi="%s" xsi:type="c:NodeX"><c:label>top</c:label>%s</c:root>' % (XSI, inner)
            for strict in (True, False):
                zs = zeep.xsd.Schema(etree.fromstring(CHAIN_XSD.encode()), settings=zeep.settings.Settings(strict=strict))
                root = zs.get_element("{urn:chain}root")
                d = etree.fromstring(text.encode())
                budget = 4000 * (depth + 2) + 20000
                outcome, events, v = enginea.budgeted(lambda: root.parse(d, zs), budget)
                res.case(key=("xsitype-chain", depth, bname, strict), nontrivial=True)
                res.count("doc:xsitype-chain")
                res.count("outcome:" + outcome)
                res.extra["max_events_per_level_xsitype_chain"] = max(res.extra.get("max_events_per_level_xsitype_chain", 0), round(events / (depth + 2), 1))
                if outcome == "BUDGET":
                    res.failures.append(dict(what="decoding a chain of %d nested xsi:typed elements did not finish within %d interpreter call events" % (depth, budget),
                                             case=dict(kind="xsitype-chain", depth=depth, bottom=bname, strict=strict, document=text[:2000])))


ALLDUP_XSD = ('<xs:schema xmlns:xs="http://www.w3.org/2001/XMLSchema" xmlns:t="urn:dup" targetNamespace="urn:dup" elementFormDefault="qualified">'
              '<xs:element name="note" type="xs:string"/>'
              '<xs:group name="g"><xs:all><xs:element name="note" type="xs:string" minOccurs="0"/>%s<xs:element name="other" type="xs:string" minOccurs="0"/></xs:all></xs:group>'
              '<xs:element name="root"><xs:complexType><xs:sequence><xs:element name="head" type="xs:string"/>%s<xs:element name="tail" type="xs:string" minOccurs="0"/></xs:sequence></xs:complexType></xs:element></xs:schema>')


def all_duplicate_family(ctx, res):
    """an xsd:all that names one element twice (a local declaration beside a ref to the global one, or the same local name twice: not UPA
    clean, but it compiles) under a repeating ancestor, with k occurrences in the document: the work grows with k, not with 2^rounds"""
    import zeep.xsd
    import zeep.settings
    dups = {"local+ref": '<xs:element ref="t:note" minOccurs="0"/>', "local-twice": '<xs:element name="note" type="xs:string" minOccurs="0"/>',
            "distinct": '<xs:element name="second" type="xs:string" minOccurs="0"/>'}
    holders = {"group-unbounded": '<xs:group ref="t:g" minOccurs="0" maxOccurs="unbounded"/>',
               "group-in-repeating-sequence": '<xs:sequence minOccurs="0" maxOccurs="unbounded"><xs:group ref="t:g"/></xs:sequence>',
               "group-once": '<xs:group ref="t:g" minOccurs="0"/>'}
    for dname, dup in dups.items():
        for hname, holder in holders.items():
            for k in (0, 1, 2, 3, 4, 5, 8, 16, 40):
                text = '<d:root xmlns:d="urn:dup"><d:head>h</d:head>%s%s</d:root>' % ("".join("<d:note>n%d</d:note>" % i for i in range(k)), "<d:tail>t</d:tail>" if k % 2 else "")
                for strict in (True, False):
                    try:
                        zs = zeep.xsd.Schema(etree.fromstring((ALLDUP_XSD % (dup, holder)).encode()), settings=zeep.settings.Settings(strict=strict))
                    except Exception:  # noqa
                        continue
                    root = zs.get_element("{urn:dup}root")
                    d = etree.fromstring(text.encode())
                    budget = 3000 * (k + 2) + 20000
                    outcome, events, v = enginea.budgeted(lambda: root.parse(d, zs), budget, wall=10)
                    res.case(key=("all-duplicate", dname, hname, k, strict), nontrivial=True)
                    res.count("doc:all-duplicate-name")
                    res.count("outcome:" + outcome)
                    res.extra["max_events_per_child_all_duplicate"] = max(res.extra.get("max_events_per_child_all_duplicate", 0), round(events / (k + 2), 1))
                    if outcome == "BUDGET":
                        res.failures.append(dict(what="decoding %d occurrences of an element an xsd:all names twice did not finish within %d interpreter call events" % (k, budget),
                                                 case=dict(kind="all-duplicate", dup=dname, holder=hname, k=k, strict=strict, document=text[:2000])))


def dataset_growth_history(ctx, res):
    """one client, the same operation, 200 replies that carry their own schema (the DataSet idiom: inline xs:schema then xs:any): the work
    for the N-th reply and the number of objects the client keeps alive do not grow with N"""
    import gc
    import io
    import zeep
    import zeep.transports
    from harness.props import c05
    box = {}

    class T(zeep.transports.Transport):
        def post(self, address, message, headers):
            import requests
            r = requests.Response()
            r.status_code = 200
            r.headers["Content-Type"] = "text/xml; charset=utf-8"
            r._content = box["reply"]
            return r
    for label in ("row-in-described-namespace",):
        client = zeep.Client(io.BytesIO(c05.DS_WSDL.encode()), transport=T())
        events, objects = [], []
        n = 200
        for i in range(n):
            box["reply"] = (c05.DS_REPLY % ("xs:int", "k%d" % i, str(i))).encode()
            outcome, ev, v = enginea.budgeted(lambda: client.service.Query(table="t"), 400000, wall=20)
            if outcome != "ok":
                res.failures.append(dict(what="self-describing reply %d: %s" % (i, outcome), case=dict(kind="dataset-growth", label=label, step=i)))
                break
            events.append(ev)
            if i in (19, n - 1):
                del v
                gc.collect()
                objects.append(len(gc.get_objects()))
        else:
            early, late = sorted(events[10:20])[5], sorted(events[-10:])[5]
            res.case(key=("dataset-growth", label), nontrivial=True)
            res.count("reply:dataset-growth-history")
            res.extra["dataset_history_events_early_late"] = [early, late]
            res.extra["dataset_history_objects_after_20_and_200"] = objects
            case = dict(kind="dataset-growth", label=label, replies=n)
            if late > early * 1.25 + 200:
                res.failures.append(dict(what="the %d-th self-describing reply costs %d interpreter call events, the 15th %d: the work grows with the number of replies decoded before"
                                              % (n, late, early), case=case))
            if objects[1] - objects[0] > 2000:
                res.failures.append(dict(what="the client keeps %d more objects alive after %d self-describing replies than after 20: allocation grows with the history"
                                              % (objects[1] - objects[0], n), case=case))


def search(ctx):
    return run(ctx)


def replay(ctx, payload):
    c = payload.get("case", payload)
    src = None
    if c.get("kind") == "xsitype-chain":
        r = Result()
        xsitype_chain_family(ctx, r)
        bad = [f for f in r.failures if f["case"].get("depth") == c.get("depth") and f["case"].get("bottom") == c.get("bottom")]
        return (not bad), "xsi:type chain rerun: %d matching failures" % len(bad)
    if c.get("kind") == "dataset-growth":
        r = Result()
        dataset_growth_history(ctx, r)
        return (not r.failures), "dataset growth history rerun: %s" % (r.failures[0]["what"] if r.failures else "holds")
    if c.get("kind") == "all-duplicate":
        r = Result()
        all_duplicate_family(ctx, r)
        bad = [f for f in r.failures if all(f["case"].get(x) == c.get(x) for x in ("dup", "holder", "k", "strict"))]
        return (not bad), "xsd:all duplicate-name rerun: %d matching failures" % len(bad)
    if c.get("kind") == "reply":
        r = Result()
        reply_family(ctx, r)
        bad = [f for f in r.failures if f["case"].get("name") == c.get("name")]
        return (not bad), "reply family rerun: %d matching failures" % len(bad)
    if c.get("profile") == "group":
        return True, "group-family case: rerun ./check C08"
    if c.get("profile") in ("core", "wide"):
        case = enginea.Case(c["seed"], c["profile"])
        d = etree.fromstring(c["document"].encode())
        r = enginea.impl_parse(case, d, c["strict"], budget=c["budget"])
        return r["outcome"] != "BUDGET", "outcome %s after %d events (budget %d)" % (r["outcome"], r["events"], c["budget"])
    r = run(ctx)
    return (not r.failures), "rerun: %d failures" % len(r.failures)


def replay_finding(ctx, finding):
    return False
