"""C16 — plugin / WS-Security pipeline and HistoryPlugin: tie to lean/ZeepModel/Soap/Pipeline.lean."""
import copy
import io
import itertools

from harness.core import Result

LEAN_MODULES = ["ZeepProofs.C16", "ZeepProofs.C16Flow"]
NS = "Zeep.Pipeline."
THEOREMS = [NS + t for t in (
    "c16_egress_order", "c16_wire_is_final", "c16_threading", "c16_none_is_identity", "c16_ingress_order", "c16_history",
    "runStages_trace", "runStages_result", "egressStages_by_class", "c16_create_flow_matches_source", "c16_send_flow_matches_source", "c16_reply_flow_matches_source")]
LEVEL = "proof"
MANIFEST = dict(
    engine="E: lean/ZeepModel/Soap/Pipeline.lean",
    technique="Lean 4 theorems for arbitrary plugin / WS-Security functions and list lengths (trace order, threading, final wire message, None = identity, bounded history deque by induction over call sequences); obligations, re-checked by `decide` against the flow regenerated from soap.py on every run (translator soap_flow.py), that _create / send / process_reply run the model's stage classes in the model's order; + differential event-log tie on real clients",
    text="For every message type, every plugin list and every WS-Security configuration the model's trace is proved to be: implicit addressing, plugins in list order, wsse entries in order, extra headers, with each stage seeing its predecessor's output and the transport seeing the last output; on the way in every verifier sees the document as received, then plugins in order, their final output decoded. c16_history proves the buffer equals the last N exchanges for any call sequence incl. failing calls. Tied by running plugin lists (tracing, rewriting, None-returning, header-replacing, history at every position, maxlen 1..3), wsse none/single/list, extra headers and call sequences with failures on a real Client and comparing event logs, wire messages, decoded values and history buffers with the model.",
    note="Trusted: plugins of the tie copy messages instead of mutating them in place (aliasing between a stored history entry and later in-place mutation is plugin-author behaviour, outside the model).",
    design_ref="DESIGN.md section 6, C16",
)
TRUSTED = ["tie plugins are copy-on-write; in-place mutation aliasing is outside the model"]
ASSUMPTIONS = ["plugin and wsse callables are total functions of the message they are given"]

WSDL = """<?xml version="1.0"?>
<definitions xmlns="http://schemas.xmlsoap.org/wsdl/" xmlns:soap="http://schemas.xmlsoap.org/wsdl/soap/"
  xmlns:xsd="http://www.w3.org/2001/XMLSchema" xmlns:tns="urn:t" targetNamespace="urn:t">
  <types><xsd:schema targetNamespace="urn:t" elementFormDefault="qualified">
      <xsd:element name="in" type="xsd:string"/><xsd:element name="out" type="xsd:string"/></xsd:schema></types>
  <message name="mi"><part name="p" element="tns:in"/></message>
  <message name="mo"><part name="p" element="tns:out"/></message>
  <portType name="pt"><operation name="op"><input message="tns:mi"/><output message="tns:mo"/></operation></portType>
  <binding name="b11" type="tns:pt"><soap:binding style="document" transport="http://schemas.xmlsoap.org/soap/http"/>
    <operation name="op"><soap:operation soapAction="act"/><input><soap:body use="literal"/></input><output><soap:body use="literal"/></output></operation></binding>
  <service name="svc"><port name="p11" binding="tns:b11"><soap:address location="http://h.example/s11"/></port></service>
</definitions>"""
ENV = "http://schemas.xmlsoap.org/soap/envelope/"


def _zeep():
    import zeep
    import zeep.exceptions
    import zeep.plugins
    import zeep.transports
    import zeep.settings
    return zeep


def payload_el(envelope):
    body = envelope.find("{%s}Body" % ENV)
    return body[0] if body is not None and len(body) else None


def marks_of(envelope):
    el = payload_el(envelope)
    if el is None or not el.text:
        return []
    parts = el.text.split("|")
    return parts[1:]


def add_mark(envelope, mark):
    e = copy.deepcopy(envelope)
    el = payload_el(e)
    el.text = (el.text or "") + "|" + mark
    return e


TRACKED = ("SOAPAction", "Content-Type")


def hdrs(h):
    return sorted([k, str(v)] for k, v in dict(h).items() if k.startswith("X-") or k in TRACKED)


def build_plugins(specs, log, z):
    out = []
    for sp in specs:
        name, kind = sp["name"], sp["kind"]
        if kind == "history":
            p = z.plugins.HistoryPlugin(maxlen=sp["maxlen"])
            orig_e, orig_i = p.egress, p.ingress

            def eg(envelope, http_headers, operation, binding_options, _n=name, _o=orig_e):
                log.append(("egress", _n, marks_of(envelope), hdrs(http_headers)))
                return _o(envelope, http_headers, operation, binding_options)

            def ing(envelope, http_headers, operation, _n=name, _o=orig_i):
                log.append(("ingress", _n, marks_of(envelope), hdrs(http_headers)))
                return _o(envelope, http_headers, operation)
            p.egress, p.ingress = eg, ing
            p._verif_name = name
            out.append(p)
            continue

        class P(z.plugins.Plugin):
            def __init__(self, sp):
                self.sp = sp

            def _do(self, phase, envelope, http_headers):
                sp = self.sp
                log.append((phase, sp["name"], marks_of(envelope), hdrs(http_headers)))
                if sp["kind"] == "trace":
                    return envelope, http_headers
                if sp["kind"] == "none":
                    return None
                if sp["kind"] == "mark":
                    h = dict(http_headers)
                    h["X-" + sp["name"]] = phase
                    return add_mark(envelope, phase + ":" + sp["name"]), h
                if sp["kind"] == "header":
                    h = dict(http_headers)
                    h[sp["k"]] = sp["v"]
                    return envelope, h

            def egress(self, envelope, http_headers, operation, binding_options):
                return self._do("egress", envelope, http_headers)

            def ingress(self, envelope, http_headers, operation):
                return self._do("ingress", envelope, http_headers)
        out.append(P(sp))
    return out


class VerifyError(Exception):
    pass


def build_wsse(names, bad, log):
    class W:
        def __init__(self, n):
            self.n = n

        def apply(self, envelope, headers):
            log.append(("egress", self.n, marks_of(envelope), hdrs(headers)))
            h = dict(headers)
            h["X-WSSE"] = self.n
            return add_mark(envelope, "wsse:" + self.n), h

        def verify(self, envelope):
            log.append(("ingress", self.n, marks_of(envelope), None))
            if self.n == bad:
                raise VerifyError(self.n)
            return envelope
    return [W(n) for n in names]


class Script:
    kind = "ok"


def make_transport(z, wire_log):
    import requests

    class T(z.transports.Transport):
        def post(self, address, message, headers):
            from lxml import etree
            env = etree.fromstring(message)
            wire_log.append((marks_of(env), hdrs(headers)))
            if Script.kind == "transport-raises":
                raise IOError("connection reset")
            r = requests.Response()
            r.encoding = "utf-8"
            r.headers["Content-Type"] = "text/xml"
            if Script.kind == "empty-202":
                r.status_code = 202
                r._content = b""
                return r
            if Script.kind == "fault":
                r.status_code = 500
                r._content = ('<e:Envelope xmlns:e="%s"><e:Body><e:Fault><faultcode>c</faultcode><faultstring>f</faultstring></e:Fault></e:Body></e:Envelope>' % ENV).encode()
                return r
            r.status_code = 200
            r._content = ('<e:Envelope xmlns:e="%s"><e:Body><out xmlns="urn:t">reply</out></e:Body></e:Envelope>' % ENV).encode()
            return r
    return T()


def run_config(cfg):
    """execute the configuration on a real client; returns observations in the model's output format"""
    z = _zeep()
    log, wire_log = [], []
    plugins = build_plugins(cfg["plugins"], log, z)
    wsse_objs = build_wsse(cfg["wsse"], cfg.get("bad_verifier"), log)
    wsse = None if cfg["wsse_mode"] == "none" else (wsse_objs[0] if cfg["wsse_mode"] == "single" else wsse_objs)
    tr = make_transport(z, wire_log)
    client = z.Client(io.BytesIO(WSDL.encode()), transport=tr, plugins=plugins, wsse=wsse)
    calls = []
    for c in cfg["calls"]:
        Script.kind = c["kind"]
        del log[:]
        del wire_log[:]
        outcome = None
        try:
            if cfg["extra"]:
                with client.settings(extra_http_headers=dict(cfg["extra"])):
                    r = client.service.op("req")
            else:
                r = client.service.op("req")
            outcome = ("return", r)
        except z.exceptions.Fault as f:
            outcome = ("fault", f.message)
        except VerifyError as e:
            outcome = ("verify-error", str(e))
        except IOError:
            outcome = ("transport-error", None)
        except Exception as e:  # noqa
            outcome = ("other", type(e).__name__ + ": " + str(e)[:100])
        eg = [[n, {"marks": m, "headers": h}] for ph, n, m, h in log if ph == "egress"]
        ing = [[n, {"marks": m, "headers": h}] for ph, n, m, h in log if ph == "ingress"]
        wire = {"marks": wire_log[0][0], "headers": wire_log[0][1]} if wire_log else None
        calls.append(dict(egress=eg, wire=wire, ingress=ing, outcome=outcome))
    hist = []
    for p in plugins:
        if hasattr(p, "_verif_name"):
            buf = []
            for e in p._buffer:
                buf.append(dict(sent={"marks": marks_of(e["sent"]["envelope"]), "headers": hdrs(e["sent"]["http_headers"])},
                                received=None if e["received"] is None else
                                {"marks": marks_of(e["received"]["envelope"]), "headers": hdrs(e["received"]["http_headers"])}))
            hist.append(dict(name=p._verif_name, buffer=buf))
    return dict(calls=calls, history=hist)


REQ_HEADERS = [["Content-Type", "text/xml; charset=utf-8"], ["SOAPAction", '"act"']]
REPLY_HEADERS = [["Content-Type", "text/xml"]]


def model_op(cfg):
    return {"op": "pipeline.run", "plugins": cfg["plugins"], "wsse": cfg["wsse"] if cfg["wsse_mode"] != "none" else [],
            "bad_verifier": cfg.get("bad_verifier"), "extra": cfg["extra"], "wsa": False,
            "calls": [{"request": {"marks": [], "headers": REQ_HEADERS}, "kind": c["kind"],
                       "reply": {"marks": [], "headers": REPLY_HEADERS}} for c in cfg["calls"]]}


def norm_msg(m):
    if m is None:
        return None
    return {"marks": list(m["marks"]), "headers": sorted([list(p) for p in m["headers"]])}


def norm_trace(tr, drop_headers_of=()):
    out = []
    for n, m in tr:
        mm = norm_msg(m) if m["headers"] is not None else {"marks": list(m["marks"]), "headers": None}
        if n in drop_headers_of:
            mm["headers"] = None
        out.append([n, mm])
    return out


def spec_expect(cfg):
    """the property, computed directly (independent of the Lean model): expected traces per call"""
    calls = []
    hist = {p["name"]: [] for p in cfg["plugins"] if p["kind"] == "history"}
    wsse = cfg["wsse"] if cfg["wsse_mode"] != "none" else []
    for c in cfg["calls"]:
        marks, headers = [], dict((k, v) for k, v in REQ_HEADERS)
        eg = []
        sent_at = {}
        for p in cfg["plugins"]:
            eg.append(p["name"])
            sent_at[p["name"]] = (list(marks), dict(headers))
            if p["kind"] == "mark":
                marks = marks + ["egress:" + p["name"]]
                headers["X-" + p["name"]] = "egress"
            elif p["kind"] == "header":
                headers[p["k"]] = p["v"]
        for w in wsse:
            eg.append(w)
            marks = marks + ["wsse:" + w]
            headers["X-WSSE"] = w
        for k, v in cfg["extra"]:
            headers[k] = v
        wire = (list(marks), dict(headers))
        ing = []
        recv_at = {}
        decoded = None
        if c["kind"] in ("ok", "fault"):
            rm, rh = [], dict(REPLY_HEADERS)
            okv = True
            for w in wsse:
                ing.append(w)
                if w == cfg.get("bad_verifier"):
                    okv = False
                    break
            if okv:
                for p in cfg["plugins"]:
                    ing.append(p["name"])
                    recv_at[p["name"]] = (list(rm), dict(rh))
                    if p["kind"] == "mark":
                        rm = rm + ["ingress:" + p["name"]]
                        rh["X-" + p["name"]] = "ingress"
                    elif p["kind"] == "header":
                        rh[p["k"]] = p["v"]
                decoded = rm
        for h in hist:
            hist[h].append((sent_at[h], recv_at.get(h)))
        calls.append(dict(egress=eg, wire=wire, ingress=ing, decoded=decoded))
    histories = {}
    for p in cfg["plugins"]:
        if p["kind"] == "history":
            histories[p["name"]] = hist[p["name"]][-p["maxlen"]:]
    return calls, histories


def judge(cfg, obs):
    exp_calls, exp_hist = spec_expect(cfg)
    for i, (e, o, c) in enumerate(zip(exp_calls, obs["calls"], cfg["calls"])):
        if [n for n, _ in o["egress"]] != e["egress"]:
            return "call %d: way-out order %r, documented order %r" % (i, [n for n, _ in o["egress"]], e["egress"])
        if o["wire"] is None:
            return "call %d: nothing reached the transport" % i
        if o["wire"]["marks"] != e["wire"][0]:
            return "call %d: wire envelope %r is not the last stage's output %r" % (i, o["wire"]["marks"], e["wire"][0])
        wh = dict((k, v) for k, v in o["wire"]["headers"])
        eh = dict((k, v) for k, v in e["wire"][1].items() if k.startswith("X-") or k in TRACKED)
        if wh != eh:
            return "call %d: wire HTTP headers %r, expected %r" % (i, wh, eh)
        if [n for n, _ in o["ingress"]] != e["ingress"]:
            return "call %d: way-in order %r, documented order %r" % (i, [n for n, _ in o["ingress"]], e["ingress"])
        if c["kind"] == "ok" and e["decoded"] is not None:
            if o["outcome"][0] != "return" or o["outcome"][1] != "|".join(["reply"] + e["decoded"]):
                return "call %d: decoded %r is not the plugins' final output %r" % (i, o["outcome"], e["decoded"])
        if c["kind"] == "ok" and e["decoded"] is None and o["outcome"][0] == "return":
            return "call %d: returned normally although WS-Security verification failed" % i
        if o["outcome"][0] == "other":
            return "call %d: unexpected error %s" % (i, o["outcome"][1])
    extras = dict((k, v) for k, v in cfg["extra"])

    def hdr_ok(got, pos):
        # zeep merges the per-call extra headers into the very dict object the history plugin holds, so the
        # reported headers are the ones at its position, possibly overlaid by the extras (the wire headers)
        pos = {k: v for k, v in pos.items() if k.startswith("X-") or k in TRACKED}
        keys = set(got) | set(pos)
        return all(got.get(k) == pos.get(k) or (k in extras and got.get(k) == extras[k]) for k in keys)
    for h in obs["history"]:
        exp = exp_hist[h["name"]]
        if len(h["buffer"]) != len(exp):
            return "history plugin %s holds %d exchanges, expected the last %d" % (h["name"], len(h["buffer"]), len(exp))
        for b, (s_, r_) in zip(h["buffer"], exp):
            if b["sent"]["marks"] != s_[0] or not hdr_ok(dict(b["sent"]["headers"]), s_[1]):
                return "history plugin %s: sent message %r is not the one that passed it (%r)" % (h["name"], b["sent"], s_)
            if (b["received"] is None) != (r_ is None):
                return "history plugin %s: received message presence wrong (%r vs %r)" % (h["name"], b["received"], r_)
            if r_ is not None and (b["received"]["marks"] != r_[0] or not hdr_ok(dict(b["received"]["headers"]), r_[1])):
                return "history plugin %s: received message %r is not the one that passed it (%r)" % (h["name"], b["received"], r_)
    return None


def compare_model(cfg, obs, mo):
    m = mo["ok"]
    for i, (mc, oc) in enumerate(zip(m["calls"], obs["calls"])):
        wsse = set(cfg["wsse"])
        if norm_trace(mc["egress"][:-1]) != norm_trace(oc["egress"]):
            return "egress trace of call %d" % i
        if norm_msg(mc["wire"]) != norm_msg(oc["wire"]):
            return "wire message of call %d" % i
        if norm_trace(mc["ingress"], wsse) != norm_trace(oc["ingress"], wsse):
            return "ingress trace of call %d" % i
    def hm(b):
        return dict(sent=b["sent"]["marks"], received=None if b["received"] is None else b["received"]["marks"])
    mh = [dict(name=h["name"], buffer=[hm(b) for b in h["buffer"]]) for h in m["history"]]
    oh = [dict(name=h["name"], buffer=[hm(b) for b in h["buffer"]]) for h in obs["history"]]
    if mh != oh:
        return "history buffers"
    return None


KINDS = [dict(kind="trace"), dict(kind="mark"), dict(kind="none"), dict(kind="header", k="SOAPAction", v="replaced"),
         dict(kind="header", k="X-WSSE", v="from-plugin")]
CALLSEQS = [["ok"], ["ok", "ok"], ["transport-raises", "ok"], ["ok", "fault", "ok"], ["empty-202", "ok", "ok"],
            ["ok", "transport-raises", "empty-202", "ok"], ["fault", "fault"]]


def configs(ctx):
    rng = ctx.rng
    out = []
    # exhaustive small core: plugin lists of length 0..2 over the 5 kinds, wsse none/single/list2, extras on/off
    names = "ABCD"
    for n in range(0, 3):
        for kinds in itertools.product(range(len(KINDS)), repeat=n):
            for wm, ws in (("none", []), ("single", ["W1"]), ("list", ["W1", "W2"])):
                for extra in ([], [["X-WSSE", "from-extra"], ["X-E", "1"]]):
                    pl = [dict(KINDS[k], name=names[i]) for i, k in enumerate(kinds)]
                    out.append(dict(plugins=pl, wsse=ws, wsse_mode=wm, extra=extra, calls=[dict(kind="ok")]))
    # history plugin at every position, maxlen 1..3, call sequences with failures, bad verifiers
    nrand = ctx.n(400, 6000)
    for _ in range(nrand):
        n = rng.randrange(0, 5)
        pl = [dict(rng.choice(KINDS), name=names[i]) for i in range(n)]
        nh = rng.choice([0, 1, 1, 2])
        for j in range(nh):
            pos = rng.randrange(0, len(pl) + 1)
            pl.insert(pos, dict(kind="history", name="H%d" % j, maxlen=rng.choice([1, 2, 3])))
        wm = rng.choice(["none", "single", "list", "list"])
        ws = [] if wm == "none" else (["W1"] if wm == "single" else ["W%d" % (i + 1) for i in range(rng.choice([1, 2, 3]))])
        bad = rng.choice(ws) if ws and rng.random() < 0.2 else None
        extra = rng.choice([[], [["X-E", "1"]], [["X-WSSE", "from-extra"]], [["SOAPAction", "extra"], ["X-A", "extra"]]])
        calls = [dict(kind=k) for k in rng.choice(CALLSEQS)]
        out.append(dict(plugins=pl, wsse=ws, wsse_mode=wm, bad_verifier=bad, extra=extra, calls=calls))
    return out


def run(ctx):
    res = Result()
    import logging
    logging.getLogger("zeep").setLevel(logging.CRITICAL)
    cfgs = configs(ctx)
    mout = ctx.model.run([model_op(c) for c in cfgs]) if ctx.model else [None] * len(cfgs)
    for cfg, mo in zip(cfgs, mout):
        obs = run_config(cfg)
        res.case(key=cfg, nontrivial=len(cfg["plugins"]) >= 1 or cfg["wsse_mode"] != "none")
        res.count("plugins=%d" % len(cfg["plugins"]))
        res.count("wsse:" + cfg["wsse_mode"])
        res.count("calls=%d" % len(cfg["calls"]))
        for p in cfg["plugins"]:
            res.count("kind:" + p["kind"])
        for c in cfg["calls"]:
            res.count("reply:" + c["kind"])
        fail = judge(cfg, obs)
        if fail:
            res.failures.append(dict(what=fail, case=cfg))
        elif mo is not None:
            if "err" in mo:
                res.disagreements.append(dict(relation="driver error", case=cfg, model=mo))
            else:
                d = compare_model(cfg, obs, mo)
                if d:
                    res.disagreements.append(dict(relation="Pipeline.runCall vs real client: " + d, case=cfg, model=mo["ok"], impl=obs))
        if len(cfg["calls"]) > 2 and any(p["kind"] == "history" for p in cfg["plugins"]):
            res.sample(cfg, cap=3)
    res.programs = len(cfgs)
    res.rule = ("exhaustive: plugin lists of length 0-2 over {trace, mark (rewrites envelope + header), returns None, replaces SOAPAction, "
                "sets X-WSSE} x wsse none/single/list x extra headers on/off; random: 0-4 plugins + 0-2 history plugins at random "
                "positions (maxlen 1-3), wsse lists up to 3 with an occasional rejecting verifier, extras colliding with plugin/wsse "
                "headers, call sequences with transport failures, faults and empty 202. distinct = distinct configuration")
    return res


def search(ctx):
    return run(ctx)


def replay(ctx, payload):
    cfg = payload.get("case", payload)
    obs = run_config(cfg)
    fail = judge(cfg, obs)
    return (fail is None), str(fail)


def replay_finding(ctx, finding):
    return False
