"""C05 — returned payload and the convenience rule: tie between lean/ZeepModel/Soap/Unwrap.lean and zeep."""
import io

from harness.core import Result, load_known

LEAN_MODULES = ["ZeepProofs.C05"]
NS = "Zeep.Unwrap."
THEOREMS = [NS + t for t in ("c05_rule", "c05_several", "c05_none", "c05_headers", "c05_raw")]
LEVEL = "proof"
MANIFEST = dict(
    engine="E: lean/ZeepModel/Soap/Unwrap.lean",
    technique="Lean 4 proof that the code-shaped unwrapping function equals the rule of the statement for every value + differential tie over generated WSDLs (doc/rpc, 1.1/1.2, output shapes, output headers) x replies x reply spellings x call sequences",
    text="c05_rule proves for every header/body value that what the code computes (len / sole value / type-level child and attribute counts) is the five-clause rule of the statement; c05_headers and c05_raw cover the pairing and raw-response clauses. Tied by calling operations of generated WSDLs against scripted replies (all output shapes incl. one-character strings, xsi:type substitution, lists, nested single-child wrappers, empty types; rpc with 0-2 parts; declared output headers with and without a Header in the reply; prefixes/default-namespace/encoding spellings; sequences of calls on one client) and comparing the returned value with the model and with an independent Python rendering of the statement.",
    note="The decoded body value handed to the model is built by the harness from the reply it generated (what the document denotes); full composition with the decoder is C03's subject. Known finding K10 (output message whose only part is a header part) is listed in known_findings.json.",
    design_ref="DESIGN.md section 6, C05",
)
TRUSTED = ["the harness's construction of the value a generated reply denotes (simple shapes only)"]
ASSUMPTIONS = []

ENVNS = {"1.1": "http://schemas.xmlsoap.org/soap/envelope/", "1.2": "http://www.w3.org/2003/05/soap-envelope"}

SCHEMA = """
    <xsd:schema targetNamespace="urn:t" elementFormDefault="qualified" xmlns:tns="urn:t">
      <xsd:element name="in" type="xsd:string"/>
      <xsd:element name="hdr" type="xsd:string"/>
      <xsd:complexType name="Inner"><xsd:sequence><xsd:element name="p" type="xsd:string"/><xsd:element name="q" type="xsd:int"/></xsd:sequence></xsd:complexType>
      <xsd:complexType name="Wrap1"><xsd:sequence><xsd:element name="v" type="xsd:string"/></xsd:sequence></xsd:complexType>
      <xsd:complexType name="Base"><xsd:sequence><xsd:element name="value" type="xsd:string"/></xsd:sequence></xsd:complexType>
      <xsd:complexType name="Derived"><xsd:complexContent><xsd:extension base="tns:Base"><xsd:sequence><xsd:element name="extra" type="xsd:int"/></xsd:sequence></xsd:extension></xsd:complexContent></xsd:complexType>
      <xsd:element name="outS" type="xsd:string"/>
      <xsd:element name="Fault" type="xsd:string"/>
      <xsd:element name="outI" type="xsd:int"/>
      <xsd:element name="outC1"><xsd:complexType><xsd:sequence><xsd:element name="v" type="xsd:string"/></xsd:sequence></xsd:complexType></xsd:element>
      <xsd:element name="outC1A"><xsd:complexType><xsd:sequence><xsd:element name="v" type="xsd:string"/></xsd:sequence><xsd:attribute name="id" type="xsd:string"/></xsd:complexType></xsd:element>
      <xsd:element name="outC2"><xsd:complexType><xsd:sequence><xsd:element name="a" type="xsd:string"/><xsd:element name="b" type="xsd:int"/></xsd:sequence></xsd:complexType></xsd:element>
      <xsd:element name="outN"><xsd:complexType><xsd:sequence><xsd:element name="inner" type="tns:Inner"/></xsd:sequence></xsd:complexType></xsd:element>
      <xsd:element name="outNN"><xsd:complexType><xsd:sequence><xsd:element name="wrap" type="tns:Wrap1"/></xsd:sequence></xsd:complexType></xsd:element>
      <xsd:element name="outE"><xsd:complexType/></xsd:element>
      <xsd:element name="outL"><xsd:complexType><xsd:sequence><xsd:element name="item" type="xsd:string" minOccurs="0" maxOccurs="unbounded"/></xsd:sequence></xsd:complexType></xsd:element>
      <xsd:element name="outX"><xsd:complexType><xsd:sequence><xsd:element name="val" type="tns:Base"/></xsd:sequence></xsd:complexType></xsd:element>
    </xsd:schema>"""

DOC_OPS = ["outS", "Fault", "outI", "outC1", "outC1A", "outC2", "outN", "outNN", "outE", "outL", "outX"]
RPC_OPS = {"rpc0": [], "rpcS": [("r", "xsd:string")], "rpcInner": [("r", "tns:Inner")], "rpcWrap": [("r", "tns:Wrap1")],
           "rpc2": [("r1", "xsd:string"), ("r2", "xsd:int")]}


def wsdl(ver, out_headers):
    soapns = "http://schemas.xmlsoap.org/wsdl/soap/" if ver == "1.1" else "http://schemas.xmlsoap.org/wsdl/soap12/"
    msgs, pts, bdoc, brpc = "", "", "", ""
    hdr = '<soap:header message="tns:mh" part="h" use="literal"/>' if out_headers else ""
    for o in DOC_OPS:
        msgs += '<message name="m_%s"><part name="p" element="tns:%s"/></message>' % (o, o)
        pts += '<operation name="%s"><input message="tns:mi"/><output message="tns:m_%s"/></operation>' % (o, o)
        bdoc += ('<operation name="%s"><soap:operation soapAction="a"/><input><soap:body use="literal"/></input>'
                 '<output><soap:body use="literal"/>%s</output></operation>' % (o, hdr))
    msgs += '<message name="m_multi"><part name="p1" element="tns:outS"/><part name="p2" element="tns:outI"/></message>'
    pts += '<operation name="multi"><input message="tns:mi"/><output message="tns:m_multi"/></operation>'
    bdoc += ('<operation name="multi"><soap:operation soapAction="a"/><input><soap:body use="literal"/></input>'
             '<output><soap:body use="literal"/>%s</output></operation>' % hdr)
    rpts = ""
    for o, parts in RPC_OPS.items():
        msgs += '<message name="m_%s">%s</message>' % (o, "".join('<part name="%s" type="%s"/>' % p for p in parts))
        rpts += '<operation name="%s"><input message="tns:mri"/><output message="tns:m_%s"/></operation>' % (o, o)
        brpc += ('<operation name="%s"><soap:operation soapAction="a"/><input><soap:body use="literal" namespace="urn:rpc"/></input>'
                 '<output><soap:body use="literal" namespace="urn:rpc"/>%s</output></operation>' % (o, hdr))
    return """<?xml version="1.0"?>
<definitions xmlns="http://schemas.xmlsoap.org/wsdl/" xmlns:soap="%s" xmlns:xsd="http://www.w3.org/2001/XMLSchema" xmlns:tns="urn:t" targetNamespace="urn:t">
  <types>%s</types>
  <message name="mi"><part name="p" element="tns:in"/></message>
  <message name="mri"><part name="a" type="xsd:string"/></message>
  <message name="mh"><part name="h" element="tns:hdr"/></message>
  %s
  <portType name="ptd">%s</portType>
  <portType name="ptr">%s</portType>
  <binding name="bd" type="tns:ptd"><soap:binding style="document" transport="http://schemas.xmlsoap.org/soap/http"/>%s</binding>
  <binding name="br" type="tns:ptr"><soap:binding style="rpc" transport="http://schemas.xmlsoap.org/soap/http"/>%s</binding>
  <service name="svc"><port name="pd" binding="tns:bd"><soap:address location="http://h.example/d"/></port>
    <port name="pr" binding="tns:br"><soap:address location="http://h.example/r"/></port></service>
</definitions>""" % (soapns, SCHEMA, msgs, pts, rpts, bdoc, brpc)


# ---- replies: (xml of the Body content, V of the decoded body)

def P(t):
    return {"p": str(t)}


def O(c, a, fields):
    return {"o": [c, a, fields]}


def reply_for(op, variant, spell):
    """returns (body inner xml, V body) for operation `op`"""
    t = "t:" if spell == "prefixed" else ""
    xm = ' xmlns:t="urn:t"' if spell == "prefixed" else ' xmlns="urn:t"'
    s1 = variant["s"]
    if op == "outS":
        return "<%soutS%s>%s</%soutS>" % (t, xm, s1, t), P(s1)
    if op == "Fault":
        # a payload element that merely shares its local name with soap-env:Fault (it lives in the service's namespace)
        return "<%sFault%s>%s</%sFault>" % (t, xm, s1, t), P(s1)
    if op == "outI":
        return "<%soutI%s>%d</%soutI>" % (t, xm, variant["i"], t), P(variant["i"])
    if op == "outC1":
        return "<%soutC1%s><%sv>%s</%sv></%soutC1>" % (t, xm, t, s1, t, t), O(1, 0, [["v", P(s1)]])
    if op == "outC1A":
        return '<%soutC1A%s id="k"><%sv>%s</%sv></%soutC1A>' % (t, xm, t, s1, t, t), O(1, 1, [["v", P(s1)], ["id", P("k")]])
    if op == "outC2":
        return "<%soutC2%s><%sa>%s</%sa><%sb>%d</%sb></%soutC2>" % (t, xm, t, s1, t, t, variant["i"], t, t), O(2, 0, [["a", P(s1)], ["b", P(variant["i"])]])
    if op == "outN":
        return ("<%soutN%s><%sinner><%sp>%s</%sp><%sq>%d</%sq></%sinner></%soutN>" % (t, xm, t, t, s1, t, t, variant["i"], t, t, t),
                O(1, 0, [["inner", O(2, 0, [["p", P(s1)], ["q", P(variant["i"])]])]]))
    if op == "outNN":
        return ("<%soutNN%s><%swrap><%sv>%s</%sv></%swrap></%soutNN>" % (t, xm, t, t, s1, t, t, t),
                O(1, 0, [["wrap", O(1, 0, [["v", P(s1)]])]]))
    if op == "outE":
        return "<%soutE%s/>" % (t, xm), None
    if op == "outL":
        items = variant["items"]
        return ("<%soutL%s>%s</%soutL>" % (t, xm, "".join("<%sitem>%s</%sitem>" % (t, x, t) for x in items), t),
                O(1, 0, [["item", {"l": [P(x) for x in items]}]]))
    if op == "outX":
        if variant["derived"]:
            pre = "t" if spell == "prefixed" else "tt"
            decl = "" if spell == "prefixed" else ' xmlns:tt="urn:t"'
            return ('<%soutX%s%s xmlns:xsi="http://www.w3.org/2001/XMLSchema-instance"><%sval xsi:type="%s:Derived"><%svalue>%s</%svalue><%sextra>%d</%sextra></%sval></%soutX>'
                    % (t, xm, decl, t, pre, t, s1, t, t, variant["i"], t, t, t),
                    O(1, 0, [["val", O(2, 0, [["value", P(s1)], ["extra", P(variant["i"])]])]]))
        return ("<%soutX%s><%sval><%svalue>%s</%svalue></%sval></%soutX>" % (t, xm, t, t, s1, t, t, t),
                O(1, 0, [["val", O(1, 0, [["value", P(s1)]])]]))
    if op == "multi":
        return ("<%soutS%s>%s</%soutS><%soutI%s>%d</%soutI>" % (t, xm, s1, t, t, xm, variant["i"], t),
                O(2, 0, [["p1", P(s1)], ["p2", P(variant["i"])]]))
    # rpc: wrapper {urn:rpc}opResponse, parts unqualified
    parts = RPC_OPS[op]
    inner, fields = "", []
    for name, ty in parts:
        if ty == "xsd:string":
            inner += "<%s>%s</%s>" % (name, s1, name)
            fields.append([name, P(s1)])
        elif ty == "xsd:int":
            inner += "<%s>%d</%s>" % (name, variant["i"], name)
            fields.append([name, P(variant["i"])])
        elif ty == "tns:Inner":
            inner += '<%s><p xmlns="urn:t">%s</p><q xmlns="urn:t">%d</q></%s>' % (name, s1, variant["i"], name)
            fields.append([name, O(2, 0, [["p", P(s1)], ["q", P(variant["i"])]])])
        elif ty == "tns:Wrap1":
            inner += '<%s><v xmlns="urn:t">%s</v></%s>' % (name, s1, name)
            fields.append([name, O(1, 0, [["v", P(s1)]])])
    return '<r:%sResponse xmlns:r="urn:rpc">%s</r:%sResponse>' % (op, inner, op), (O(len(parts), 0, fields) if parts else O(0, 0, []))


def spec_return(out_headers, header_v, body_v):
    """the statement, in Python, on V values; returns canonical python value"""
    def py(v):
        if v is None:
            return None
        if "p" in v:
            return v["p"]
        if "l" in v:
            return [py(x) for x in v["l"]]
        return {k: py(x) for k, x in v["o"][2]}
    if out_headers:
        return {"header": py(header_v), "body": py(body_v)}
    if body_v is None or "o" not in body_v:
        return py(body_v)
    c, a, fields = body_v["o"]
    if len(fields) == 0:
        return None
    if len(fields) > 1:
        return py(body_v)
    v = fields[0][1]
    if v is not None and "o" in v and v["o"][0] == 1 and v["o"][1] == 0:
        return py(v["o"][2][0][1])
    return py(v)


def canon(x):
    from zeep.helpers import serialize_object
    import zeep.xsd
    x = serialize_object(x, dict)

    def c(v):
        if isinstance(v, dict):
            return {k: c(w) for k, w in v.items() if not (k.startswith("_") )}
        if isinstance(v, list):
            return [c(w) for w in v]
        if v is None:
            return None
        return str(v)
    return c(x)


class Script:
    status = 200
    ctype = "text/xml; charset=utf-8"
    content = b""
    last = None


def make_client(ver, out_headers, raw=False):
    import zeep
    import zeep.transports
    import zeep.settings
    import requests

    class T(zeep.transports.Transport):
        def post(self, address, message, headers):
            r = requests.Response()
            r.status_code = Script.status
            r.headers["Content-Type"] = Script.ctype
            r._content = Script.content
            r.encoding = "utf-8"
            Script.last = r
            return r
    return zeep.Client(io.BytesIO(wsdl(ver, out_headers).encode()), transport=T(), settings=zeep.settings.Settings(raw_response=raw))


VARIANTS = [dict(s="hello", i=7, items=["a", "b"], derived=False), dict(s="x", i=0, items=["q"], derived=True),
            dict(s="héllo wörld ✓", i=-12, items=[], derived=False), dict(s="0", i=2147483647, items=["z", "zz", "z z"], derived=True)]
SPELLINGS = ["default-ns", "prefixed"]
ENVELOPE_STYLES = ["plain", "extra-header", "xml-decl-utf16", "latin1", "no-header-element"]


def envelope(ver, inner, hdr_value, style):
    e = ENVNS[ver]
    header = ""
    if hdr_value is not None:
        header = '<soapenv:Header><hdr xmlns="urn:t">%s</hdr></soapenv:Header>' % hdr_value
    elif style == "extra-header":
        header = '<soapenv:Header><x:Trace xmlns:x="urn:zzz">1</x:Trace></soapenv:Header>'
    elif style != "no-header-element":
        header = "<soapenv:Header/>"
    xml = '<soapenv:Envelope xmlns:soapenv="%s">%s<soapenv:Body>%s</soapenv:Body></soapenv:Envelope>' % (e, header, inner)
    if style == "xml-decl-utf16":
        return ('<?xml version="1.0" encoding="utf-16"?>' + xml).encode("utf-16"), "text/xml; charset=utf-16"
    if style == "latin1":
        try:
            return ('<?xml version="1.0" encoding="iso-8859-1"?>' + xml).encode("latin-1"), "text/xml; charset=iso-8859-1"
        except UnicodeEncodeError:
            pass
    return ('<?xml version="1.0" encoding="utf-8"?>' + xml).encode("utf-8"), "text/xml; charset=utf-8"


def run(ctx):
    res = Result()
    import logging
    logging.getLogger("zeep").setLevel(logging.CRITICAL)
    pending = []
    n = 0
    for ver in ("1.1", "1.2"):
        for out_headers in (False, True):
            client = make_client(ver, out_headers)
            rawclient = make_client(ver, out_headers, raw=True)
            ops = [("pd", o) for o in DOC_OPS + ["multi"]] + [("pr", o) for o in RPC_OPS]
            # every op is called several times in a row on the same client with different variants (sequence)
            for port, op in ops:
                for vi, variant in enumerate(VARIANTS):
                    for spell in SPELLINGS:
                        style = ENVELOPE_STYLES[n % len(ENVELOPE_STYLES)]
                        n += 1
                        inner, body_v = reply_for(op, variant, spell)
                        hdr_in_reply = out_headers and style != "no-header-element"
                        hdr_value = "hv%d" % n if hdr_in_reply else None
                        Script.content, Script.ctype = envelope(ver, inner, hdr_value, style)
                        header_v = O(1, 0, [["h", P(hdr_value)]]) if hdr_value is not None else None
                        case = dict(version=ver, out_headers=out_headers, op=op, variant=variant, spelling=spell, envelope_style=style,
                                    reply=Script.content.decode("utf-16" if style == "xml-decl-utf16" else ("latin-1" if b"iso-8859-1" in Script.content[:60] else "utf-8")))
                        svc = client.bind("svc", port)
                        res.case(key=(ver, out_headers, op, vi, spell, style), nontrivial=True)
                        res.count("op:" + op)
                        res.count("style:" + style)
                        try:
                            r = getattr(svc, op)("x") if port == "pd" else getattr(svc, op)(a="x")
                            got = canon(r)
                            err = None
                        except Exception as e:  # noqa
                            got, err = None, "%s: %s" % (type(e).__name__, e)
                        exp = spec_return(out_headers, header_v, body_v)
                        if err or got != exp:
                            f = dict(what=("call raised " + err) if err else "returned value differs from the payload under the convenience rule",
                                     case=case, expected=exp, got=got)
                            if out_headers and op == "rpc0" and got is None and not err:
                                # K10 class: the output message contributes no body part while output headers are declared
                                f["known"] = "K10"
                                res.known_hits["K10"] = res.known_hits.get("K10", 0) + 1
                            res.failures.append(f)
                        else:
                            pending.append(({"op": "soap.unwrap", "raw": False, "out_headers": out_headers, "header": header_v, "body": body_v}, got, case))
                # raw response mode: one call per op
                inner, body_v = reply_for(op, VARIANTS[0], "prefixed")
                Script.content, Script.ctype = envelope(ver, inner, None, "plain")
                svc = rawclient.bind("svc", port)
                res.case(key=(ver, out_headers, op, "raw"))
                res.count("raw")
                try:
                    r = getattr(svc, op)("x") if port == "pd" else getattr(svc, op)(a="x")
                    if r is not Script.last:
                        res.failures.append(dict(what="raw_response mode did not return the transport's response object untouched",
                                                 case=dict(version=ver, op=op, raw=True)))
                except Exception as e:  # noqa
                    res.failures.append(dict(what="raw_response call raised %s" % e, case=dict(version=ver, op=op, raw=True)))
    interleaving_probe(ctx, res)
    dataset_histories(ctx, res)
    if ctx.model and pending:
        outs = ctx.model.run([p[0] for p in pending])

        def pyv(v):
            if v is None:
                return None
            if "p" in v:
                return v["p"]
            if "l" in v:
                return [pyv(x) for x in v["l"]]
            return {k: pyv(x) for k, x in v["o"][2]}
        for (mop, got, case), mo in zip(pending, outs):
            m = mo.get("ok")
            if m is None:
                mv = "err"
            elif "pair" in m:
                mv = {"header": pyv(m["pair"][0]), "body": pyv(m["pair"][1])}
            else:
                mv = pyv(m.get("value"))
            if mv != got:
                res.disagreements.append(dict(relation="Unwrap.unwrap vs returned value", case=case, model=mv, impl=got))
    res.sample(dict(version="1.1", op="outX", variant=VARIANTS[1], reply=reply_for("outX", VARIANTS[1], "default-ns")[0]))
    res.programs = 4
    res.exhaustive = True
    res.rule = ("2 SOAP versions x output headers declared or not x 16 operations (10 document output shapes, a two-part document message, "
                "5 rpc outputs) x 4 value variants (incl. one-character strings, empty list, xsi:type substitution) x 2 namespace spellings, "
                "envelope styles rotated (empty Header, undeclared header entry, utf-16 / latin-1 declared encodings, no Header element), all "
                "calls of an operation in a row on one client; raw_response per operation. distinct = distinct cell")
    return res


DS_WSDL = """<?xml version="1.0"?>
<definitions xmlns="http://schemas.xmlsoap.org/wsdl/" xmlns:soap="http://schemas.xmlsoap.org/wsdl/soap/"
  xmlns:xsd="http://www.w3.org/2001/XMLSchema" xmlns:tns="urn:ds" targetNamespace="urn:ds">
  <types><xsd:schema targetNamespace="urn:ds" elementFormDefault="qualified">
    <xsd:element name="Query"><xsd:complexType><xsd:sequence><xsd:element name="table" type="xsd:string"/></xsd:sequence></xsd:complexType></xsd:element>
    <xsd:element name="QueryResponse"><xsd:complexType><xsd:sequence>
      <xsd:element name="QueryResult"><xsd:complexType><xsd:sequence><xsd:element ref="xsd:schema"/><xsd:any/></xsd:sequence></xsd:complexType></xsd:element>
      <xsd:element name="rows" type="xsd:int"/></xsd:sequence></xsd:complexType></xsd:element>
  </xsd:schema></types>
  <message name="qi"><part name="parameters" element="tns:Query"/></message>
  <message name="qo"><part name="parameters" element="tns:QueryResponse"/></message>
  <portType name="pt"><operation name="Query"><input message="tns:qi"/><output message="tns:qo"/></operation></portType>
  <binding name="b" type="tns:pt"><soap:binding style="document" transport="http://schemas.xmlsoap.org/soap/http"/>
    <operation name="Query"><soap:operation soapAction="urn:Query"/><input><soap:body use="literal"/></input><output><soap:body use="literal"/></output></operation></binding>
  <service name="svc"><port name="p" binding="tns:b"><soap:address location="http://h.example/ds"/></port></service>
</definitions>"""
DS_REPLY = ('<e:Envelope xmlns:e="http://schemas.xmlsoap.org/soap/envelope/"><e:Body><QueryResponse xmlns="urn:ds"><QueryResult>'
            '<xs:schema xmlns:xs="http://www.w3.org/2001/XMLSchema" targetNamespace="urn:rows" elementFormDefault="qualified">'
            '<xs:element name="row"><xs:complexType><xs:sequence><xs:element name="key" type="xs:string"/><xs:element name="value" type="%s"/>'
            '</xs:sequence></xs:complexType></xs:element></xs:schema>'
            '<row xmlns="urn:rows"><key>%s</key><value>%s</value></row></QueryResult><rows>1</rows></QueryResponse></e:Body></e:Envelope>')


def dataset_histories(ctx, res):
    """replies that describe their own payload (inline xs:schema followed by xs:any, the .NET DataSet idiom): a history of
    calls on one client whose replies declare the same column with different types -- each call must return what *its*
    reply says, i.e. what a fresh client returns for that reply"""
    import io
    import decimal
    import zeep
    import zeep.transports
    box = {}

    class T(zeep.transports.Transport):
        def post(self, address, message, headers):
            import requests
            r = requests.Response()
            r.status_code = 200
            r.headers["Content-Type"] = "text/xml; charset=utf-8"
            r.encoding = "utf-8"
            r._content = box["reply"].encode()
            return r
    cols = [("xs:int", "007", 7), ("xs:string", "007", "007"), ("xs:decimal", "1.50", decimal.Decimal("1.50")), ("xs:boolean", "1", True),
            ("xs:string", "1", "1"), ("xs:int", "12", 12)]
    orders = [[0, 1, 2, 3, 4, 5], [1, 0, 4, 3], [3, 4, 0, 1], [2, 1, 0]]
    for oi, order in enumerate(orders):
        shared = zeep.Client(io.BytesIO(DS_WSDL.encode()), transport=T())
        for step, ci in enumerate(order):
            ty, text, exp = cols[ci]
            box["reply"] = DS_REPLY % (ty, "k%d" % ci, text)
            res.case(key=("dataset", oi, step), nontrivial=True)
            res.count("dataset-history-step")
            case = dict(kind="dataset", order=order, step=step, column_type=ty, text=text)
            try:
                got = []
                for client in (shared, zeep.Client(io.BytesIO(DS_WSDL.encode()), transport=T())):
                    r = client.service.Query(table="t")
                    row = r.QueryResult._value_1
                    got.append((row.key, row.value, type(row.value).__name__, r.rows))
                want = ("k%d" % ci, exp, type(exp).__name__, 1)
                if got[0] != want or got[1] != want:
                    res.failures.append(dict(what="a reply describing its own payload: the shared client returned %r, a fresh client %r, the reply says %r"
                                             % (got[0], got[1], want), case=case))
                    break
            except Exception as e:  # noqa
                res.failures.append(dict(what="self-describing reply raised %s: %s" % (type(e).__name__, e), case=case))
                break


def interleaving_probe(ctx, res):
    """one client shared by two threads: while thread A is inside `with client.settings(raw_response=True)`, an ordinary
    call made by thread B must still return the payload the server sent (the block is thread-local), and A gets the response"""
    import threading
    for ver in ("1.1", "1.2"):
        client = make_client(ver, False)
        port = "pd"
        op = "outX"
        inner, body_v = reply_for(op, VARIANTS[0], "prefixed")
        Script.content, Script.ctype = envelope(ver, inner, None, "plain")
        svc = client.bind("svc", port)
        expected = canon(getattr(svc, op)("x"))
        a_in, b_done = threading.Event(), threading.Event()
        box = {}

        def thread_a():
            try:
                with client.settings(raw_response=True):
                    a_in.set()
                    b_done.wait(10)
                    box["a"] = getattr(svc, op)("x")
            except Exception as e:  # noqa
                box["a_err"] = repr(e)
                a_in.set()

        def thread_b():
            a_in.wait(10)
            try:
                box["b"] = getattr(svc, op)("x")
            except Exception as e:  # noqa
                box["b_err"] = repr(e)
            b_done.set()
        ta, tb = threading.Thread(target=thread_a), threading.Thread(target=thread_b)
        ta.start(); tb.start(); ta.join(20); tb.join(20)
        res.case(key=(ver, "interleaving"))
        res.count("interleaving")
        case = dict(version=ver, op=op, kind="interleaving", schedule="A enters settings(raw_response=True); B calls; A calls; A leaves")
        if "b_err" in box or "a_err" in box:
            res.failures.append(dict(what="interleaved calls raised %s" % (box.get("b_err") or box.get("a_err")), case=case))
        elif hasattr(box.get("b"), "status_code") or canon(box.get("b")) != expected:
            res.failures.append(dict(what="a call made while ANOTHER thread was inside settings(raw_response=True) did not return the payload the server sent: %r"
                                          % (box.get("b"),), case=case))
        elif not hasattr(box.get("a"), "status_code"):
            res.failures.append(dict(what="the call inside settings(raw_response=True) did not return the response object", case=case))


def search(ctx):
    return run(ctx)


def replay(ctx, payload):
    r = run(ctx)
    case = payload.get("case", payload)
    bad = [f for f in r.failures if f["case"].get("op") == case.get("op") and f["case"].get("version") == case.get("version")]
    return (not bad), "rerun: %d matching failures" % len(bad)


K10_WSDL_OP = None


def replay_finding(ctx, finding):
    # header-only output message: conforming reply raises IndexError
    import zeep
    import zeep.transports
    import requests
    w = wsdl("1.1", False).replace('<message name="m_outS"><part name="p" element="tns:outS"/></message>',
                                   '<message name="m_outS"><part name="h" element="tns:hdr"/></message>')
    w = w.replace('<operation name="outS"><soap:operation soapAction="a"/><input><soap:body use="literal"/></input><output><soap:body use="literal"/></output></operation>',
                  '<operation name="outS"><soap:operation soapAction="a"/><input><soap:body use="literal"/></input><output><soap:body use="literal"/><soap:header message="tns:m_outS" part="h" use="literal"/></output></operation>')

    class T(zeep.transports.Transport):
        def post(self, address, message, headers):
            r = requests.Response()
            r.status_code = 200
            r.headers["Content-Type"] = "text/xml"
            r._content = ('<e:Envelope xmlns:e="%s"><e:Header><hdr xmlns="urn:t">v</hdr></e:Header><e:Body/></e:Envelope>' % ENVNS["1.1"]).encode()
            return r
    try:
        c = zeep.Client(io.BytesIO(w.encode()), transport=T())
        c.bind("svc", "pd").outS("x")
        return False
    except IndexError:
        return True
    except Exception:  # noqa
        return False
