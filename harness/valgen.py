"""Engine A, render side: conforming *values* for schemas of the section-5 family, generated independently of zeep,
with three projections of each value:

  kwargs(V)   what a caller passes (python natives, dicts, value objects, lists) in zeep's documented conventions
  ref_doc(V)  the reference serialisation, written from the XSD rules (expanded names by form, declaration order,
              attributes, xsi:nil, xsi:type, canonical lexical forms)
  supplied(V) the plain description of what was supplied, for the read-back comparison
"""
import copy
import datetime
import decimal

from lxml import etree

from harness import xsdgen
from harness.xsdgen import TNS, XSI

D = decimal.Decimal
MARK = "urn:verif"

def _tz(minutes):
    import pytz
    return pytz.FixedOffset(minutes)


# type -> [(python native, canonical lexical form)]
VLEAVES = {
    "string": [("hello", "hello"), ("x", "x"), ("a b", "a b"), ("0", "0"), ("héé ✓", "héé ✓"), (" ", " "), (" \n\t", " \n\t"), ("", "")],
    "int": [(0, "0"), (7, "7"), (-12, "-12"), (2147483647, "2147483647"), (-2147483648, "-2147483648")],
    "boolean": [(True, "true"), (False, "false")],
    "decimal": [(D("0"), "0"), (D("-1.5"), "-1.5"), (D("12345678901234567890.123"), "12345678901234567890.123"),
                # more significant digits than the default decimal context keeps
                (D("12345678901234567890123.456789012345"), "12345678901234567890123.456789012345")],
    "double": [(0.0, "0.0"), (1.5, "1.5"), (-2.5, "-2.5"), (float("inf"), "INF")],
    "date": [(datetime.date(2000, 1, 1), "2000-01-01"), (datetime.date(1999, 12, 31), "1999-12-31")],
    "dateTime": [(datetime.datetime(2001, 2, 3, 4, 5, 6), "2001-02-03T04:05:06"),
                 # zoned, with a fraction: the text ends in the offset, whose own digits must survive
                 (datetime.datetime(2001, 2, 3, 4, 5, 6, 120000, tzinfo=_tz(60)), "2001-02-03T04:05:06.120000+01:00"),
                 (datetime.datetime(1999, 12, 31, 23, 59, 59, 500000, tzinfo=_tz(330)), "1999-12-31T23:59:59.500000+05:30")],
    "base64Binary": [(b"\x00\xff", "AP8="), (b"hi", "aGk="), (b"", "")],
    "long": [(0, "0"), (9223372036854775807, "9223372036854775807")],
    "unsignedByte": [(0, "0"), (255, "255")],
    "anyURI": [("http://x/y?z=1", "http://x/y?z=1")],
}



# g-types carry (value, tzinfo) tuples: negative and half-hour offsets are the boundary
VLEAVES["gYear"] = [((2001, None), "2001"), ((1999, _tz(-210)), "1999-03:30"), ((2020, _tz(330)), "2020+05:30"), ((2001, _tz(-45)), "2001-00:45")]
VLEAVES["gMonthDay"] = [((5, 3, None), "--05-03"), ((12, 31, _tz(-570)), "--12-31-09:30")]


def lex_equal(ty, a, b):
    """lexical equivalence of two texts of builtin `ty`"""
    a = "" if a is None else a
    b = "" if b is None else b
    if a == b:
        return True
    try:
        if ty == "decimal":
            return D(a) == D(b)
        if ty == "double":
            return float(a.replace("INF", "inf")) == float(b.replace("INF", "inf"))
        if ty == "boolean":
            return {"1": "true", "0": "false"}.get(a, a) == {"1": "true", "0": "false"}.get(b, b)
        if ty in ("int", "long", "unsignedByte"):
            return int(a) == int(b)
    except Exception:  # noqa
        return False
    return False


class VGen(xsdgen.Gen):
    """section-5 generator with the wider leaf table, simple types (list / restriction), per-declaration forms"""
    rseq_occ = [(1, None), (1, 3), (2, 2), (0, None), (0, 2)]

    def __init__(self, rng, profile="values"):
        super().__init__(rng, profile)
        self.simple = {}

    def leaf_type(self, attr=False):
        r = self.rng.random()
        if r < 0.12:
            name = self.fresh("L")
            self.simple[name] = dict(kind="list", item=self.rng.choice(["int", "string", "boolean"]))
            return name
        if r < 0.2:
            name = self.fresh("R")
            self.simple[name] = dict(kind="restriction", base="string", enum=["red", "green", ""])
            return name
        return self.rng.choice(list(VLEAVES))

    def leaf_elem(self, name=None, occ=None):
        p = super().leaf_elem(name, occ)
        if self.rng.random() < 0.2:
            p["form"] = self.rng.choice(["qualified", "unqualified"])
        return p

    def attrs(self):
        out = super().attrs()
        for a in out:
            if self.rng.random() < 0.25:
                a["form"] = self.rng.choice(["qualified", "unqualified"])
        return out

    def elem(self, depth, occ=None):
        p = super().elem(depth, occ)
        if "form" not in p and self.rng.random() < 0.15:
            p["form"] = self.rng.choice(["qualified", "unqualified"])
        return p

    def sequence(self, depth, top=False):
        p = super().sequence(depth, top)
        if self.rng.random() < 0.2:
            gname = self.fresh("G")
            self.groups[gname] = dict(k="seq", items=[self.leaf_elem(occ=self.rng.choice([(1, 1), (0, 1)])) for _ in range(self.rng.choice([1, 2]))], min=1, max=1)
            p["items"].append(dict(k="group", ref=gname, min=1, max=1))
        if top and self.rng.random() < 0.2:
            p["items"].append(self.leaf_elem(occ=(1, 1)))
            p["items"].append(dict(k="any", min=0, max=self.rng.choice([1, None])))
        return p

    def top_particle(self, depth):
        p = super().top_particle(depth)
        if p["k"] == "seq" and self.rng.random() < 0.12:
            # the type's own content model repeats: (first, ...){0..n}
            first = self.leaf_elem(occ=(1, 1))
            first["nillable"] = False
            items = [first] + [i for i in p["items"] if i["k"] == "elem"][:2]
            mn, mx = self.rng.choice([(0, None), (1, None), (0, 3)])
            return dict(k="seq", items=items, min=mn, max=mx)
        return p

    def complex_type(self, depth):
        name = super().complex_type(depth)
        t = self.types[name]
        if ("derived" not in t and t["kind"] == "complex" and t["content"] and t["content"]["k"] == "seq" and t["content"].get("max", 1) == 1
                and self.rng.random() < 0.35):
            dname = name + "D"
            self.types[dname] = dict(kind="complex", content=dict(k="seq", items=[self.leaf_elem(occ=(1, 1))], min=1, max=1),
                                     attrs=[dict(name=self.fresh("at"), type="int", required=False)], base=name)
            t["derived"] = dname
        return name

    def schema(self):
        s = super().schema()
        s["simple"] = self.simple
        return s


def recursive_choice_schema():
    """Node = (label, (leaf | child:Node)*): recursion through a repeated choice"""
    content = dict(k="seq", min=1, max=1, items=[
        dict(k="elem", name="label", type="string", min=1, max=1, nillable=False),
        dict(k="choice", min=0, max=None, items=[
            dict(k="elem", name="leaf", type="int", min=1, max=1, nillable=False),
            dict(k="elem", name="child", type="T1", min=1, max=1, nillable=False)])])
    return dict(qualified=True, attr_qualified=False, types={"T1": dict(kind="complex", content=content, attrs=[], base=None)},
                groups={}, simple={}, root=("root", "T1"), recursive=True)


def recursive_sequence_schema():
    """Node = (label, (item:int, sub:Node?)*): recursion through a repeated sequence"""
    content = dict(k="seq", min=1, max=1, items=[
        dict(k="elem", name="label", type="string", min=1, max=1, nillable=False),
        dict(k="seq", min=1, max=None, items=[
            dict(k="elem", name="item", type="int", min=1, max=1, nillable=False),
            dict(k="elem", name="sub", type="T1", min=0, max=1, nillable=False)])])
    return dict(qualified=True, attr_qualified=False, types={"T1": dict(kind="complex", content=content, attrs=[dict(name="id", type="int", required=False)], base=None)},
                groups={}, simple={}, root=("root", "T1"), recursive=True)


def group_content_schema():
    """the content model of a type is a group reference itself (no enclosing sequence): T1 = group G, G = (label, line*, sub:T2?),
    T2 = group H, H = (n, tag*)"""
    def el(name, ty, mn=1, mx=1):
        return dict(k="elem", name=name, type=ty, min=mn, max=mx, nillable=False)
    groups = {"G": dict(k="seq", min=1, max=1, items=[el("label", "string"), el("line", "string", 0, None), el("sub", "T2", 0, 1)]),
              "H": dict(k="seq", min=1, max=1, items=[el("n", "int"), el("tag", "string", 0, 3)])}
    types = {"T1": dict(kind="complex", content=dict(k="group", ref="G", min=1, max=1), attrs=[dict(name="id", type="int", required=False)], base=None),
             "T2": dict(kind="complex", content=dict(k="group", ref="H", min=1, max=1), attrs=[], base=None)}
    return dict(qualified=True, attr_qualified=False, types=types, groups=groups, simple={}, root=("root", "T1"))


def xsitype_list_schema():
    """root = (item: Base{0..unbounded}, one: Base) with BaseD and BaseE derived from Base: heterogeneous lists"""
    def leafp(name, ty, mn=1):
        return dict(k="elem", name=name, type=ty, min=mn, max=1, nillable=False)
    types = {
        "T1": dict(kind="complex", content=dict(k="seq", min=1, max=1, items=[
            dict(k="elem", name="item", type="Base", min=0, max=None, nillable=False),
            dict(k="elem", name="one", type="Base", min=1, max=1, nillable=False)]), attrs=[], base=None),
        "Base": dict(kind="complex", content=dict(k="seq", min=1, max=1, items=[leafp("a", "string"), leafp("b", "int", 0)]),
                     attrs=[dict(name="id", type="int", required=False)], base=None, derived_all=["BaseD", "BaseE"], derived="BaseD"),
        "BaseD": dict(kind="complex", content=dict(k="seq", min=1, max=1, items=[leafp("d", "string")]),
                      attrs=[dict(name="dat", type="string", required=False)], base="Base"),
        "BaseE": dict(kind="complex", content=dict(k="seq", min=1, max=1, items=[leafp("e", "boolean"), leafp("f", "date", 0)]),
                      attrs=[], base="Base"),
    }
    return dict(qualified=True, attr_qualified=False, types=types, groups={}, simple={}, root=("root", "T1"))


def forms_schema(edef, adef, eform, aform):
    """the 3x3x3x3 grid of form defaults / per-declaration forms (None = not written)"""
    content = dict(k="seq", min=1, max=1, items=[
        dict(k="elem", name="plain", type="string", min=1, max=1, nillable=False),
        dict(k="elem", name="marked", type="int", min=1, max=1, nillable=False, form=eform)])
    attrs = [dict(name="plainat", type="string", required=True), dict(name="rev", type="int", required=True, form=aform)]
    return dict(qualified=edef == "qualified", attr_qualified=adef == "qualified", edef=edef, adef=adef,
                types={"T1": dict(kind="complex", content=content, attrs=attrs, base=None)}, groups={}, simple={}, root=("root", "T1"))


# ---------------------------------------------------------------------------- field names of zeep's calling convention

def annotate(src, zs):
    """walk the source AST in parallel with zeep's compiled particles and record the keyword name (`zn`) under which a
    caller supplies each particle (attr_name of elements, `_value_N` of repeating particles and wildcards)"""
    from zeep.xsd.elements.indicators import Group
    done = set()

    def walk(p, z, name):
        p["zn"] = name
        k = p["k"]
        if k in ("seq", "choice", "all"):
            nested = z.elements_nested
            if len(nested) != len(p["items"]):
                raise ValueError("particle shape differs: %s vs %s" % (p, nested))
            for c, (n, zc) in zip(p["items"], nested):
                walk(c, zc, n)
        elif k == "group":
            g = src["groups"][p["ref"]]
            assert isinstance(z, Group)
            walk(g, z.child, "_value_1")
        elif k == "elem":
            p["attr"] = z.attr_name

    def do_type(tname):
        if tname in done:
            return
        done.add(tname)
        t = src["types"][tname]
        zt = zs.get_type("{%s}%s" % (TNS, tname))
        for a, (an, za) in zip(all_attrs(src, tname), [x for x in zt.attributes]):
            a.setdefault("zn", {})[tname] = an
        if t["kind"] == "simpleContent":
            t["valname"] = zt.elements_nested[0][0] if zt.elements_nested else "_value_1"
            return
        content = effective_content(src, tname)
        t["eff"] = content
        if content is not None:
            name, z = zt.elements_nested[0]
            walk(content, z, name)

    for tname in list(src["types"]):
        do_type(tname)


def effective_content(src, tname):
    """content particle of a type; a derived type is the sequence (base content, own content)"""
    t = src["types"][tname]
    if t.get("base"):
        base = effective_content(src, t["base"])
        own = t["content"]
        if base is not None and own is not None:
            # ComplexType.extend: two sequences merge into one
            assert base["k"] == "seq" and own["k"] == "seq"
            return dict(k="seq", items=copy.deepcopy(base["items"]) + copy.deepcopy(own["items"]), min=1, max=1, synthetic=True)
        return copy.deepcopy(base if base is not None else own)
    return t["content"]


def all_attrs(src, tname):
    t = src["types"][tname]
    if t.get("base") and t["kind"] != "simpleContent":
        return all_attrs(src, t["base"]) + t["attrs"]
    return t["attrs"]


# ---------------------------------------------------------------------------- values

class Val:
    """random conforming value of the root element of a source schema"""

    def __init__(self, src, rng, max_rec=3, p_empty=0.04):
        self.s = src
        self.rng = rng
        self.p_empty = p_empty
        self.max_rec = max_rec
        self.features = set()

    def count(self, p):
        mn, mx = p.get("min", 1), p.get("max", 1)
        hi = mn + 2 if mx is None else mx
        return self.rng.choice(sorted({mn, min(mn + 1, hi), hi}))

    def leaf(self, ty, attr=False):
        st = self.s.get("simple", {}).get(ty)
        if st:
            if st["kind"] == "list":
                n = 0 if self.rng.random() < self.p_empty else self.rng.choice([1, 3])
                items = [self.rng.choice([v for v in VLEAVES[st["item"]] if v[1] != "" and " " not in v[1]]) for _ in range(n)]
                self.features.add("list-type")
                if n == 0:
                    self.features.add("empty-lexical" + ("-attr" if attr else ""))
                return dict(py=[i[0] for i in items], lex=" ".join(i[1] for i in items), ty=ty, base=st["item"], list=True)
            v = "" if self.rng.random() < self.p_empty else self.rng.choice([x for x in st["enum"] if x])
            self.features.add("restriction-type")
            if v == "":
                self.features.add("empty-lexical" + ("-attr" if attr else ""))
            return dict(py=v, lex=v, ty=ty, base=st["base"])
        empties = [x for x in VLEAVES[ty] if x[1] == ""]
        if empties and self.rng.random() < (0.3 if attr else self.p_empty):
            py, lex = empties[0]
        else:
            py, lex = self.rng.choice([x for x in VLEAVES[ty] if x[1] != ""])
        if lex == "":
            self.features.add("empty-lexical" + ("-attr" if attr else ""))
        if py in (0, False, 0.0) or py == D(0):
            self.features.add("falsy-leaf")
        return dict(py=py, lex=lex, ty=ty, base=ty)

    def is_leaf_type(self, ty):
        return ty in VLEAVES or ty in self.s.get("simple", {})

    def struct(self, tname, depth):
        t = self.s["types"][tname]
        attrs = []
        for a in all_attrs(self.s, tname):
            if a["required"] or self.rng.random() < 0.5:
                attrs.append((a, self.leaf(a["type"], attr=True)))
        out = dict(type=tname, attrs=attrs, content=None, text=None)
        if t["kind"] == "simpleContent":
            out["text"] = self.leaf(t["base"])
            return out
        content = t.get("eff", t["content"])
        if content is not None:
            out["content"] = self.particle(content, depth)
        return out

    def item(self, p, depth):
        ty = p["type"]
        if self.is_leaf_type(ty):
            if p.get("nillable") and self.rng.random() < 0.3:
                self.features.add("nil")
                return dict(nil=True)
            return dict(leaf=self.leaf(ty))
        t = self.s["types"][ty]
        actual = ty
        if t.get("derived") and self.rng.random() < 0.45:
            actual = self.rng.choice(t.get("derived_all") or [t["derived"]])
            self.features.add("xsi:type")
        return dict(struct=self.struct(actual, depth + 1), declared=ty)

    def particle(self, p, depth):
        k = p["k"]
        deep = depth >= self.max_rec and self.s.get("recursive")
        if k == "elem":
            n = self.count(p)
            if deep and not self.is_leaf_type(p["type"]):
                n = p.get("min", 1)
            return dict(k="elem", p=p, items=[self.item(p, depth) for _ in range(n)])
        if k == "any":
            nodes = []
            for i in range(self.count(p)):
                x = etree.Element("{urn:foreign}wild%d" % i)
                x.text = "w"
                x.set("a", "1")
                nodes.append(x)
            if nodes:
                self.features.add("any")
            return dict(k="any", p=p, nodes=nodes)
        if k == "group":
            g = self.s["groups"][p["ref"]]
            return dict(k="group", p=p, rounds=[self.particle(g, depth) for _ in range(self.count(p))])
        n = self.count(p)
        if deep:
            n = p.get("min", 1)
        if k == "seq":
            return dict(k="seq", p=p, rounds=[[self.particle(i, depth) for i in p["items"]] for _ in range(n)])
        if k == "choice":
            rounds = []
            for _ in range(n):
                opts = list(range(len(p["items"])))
                if deep:
                    opts = [i for i in opts if p["items"][i]["k"] != "elem" or self.is_leaf_type(p["items"][i]["type"])] or opts
                i = self.rng.choice(opts)
                rounds.append((i, self.particle(p["items"][i], depth)))
            return dict(k="choice", p=p, rounds=rounds)
        if k == "all":
            return dict(k="all", p=p, members=[self.particle(i, depth) for i in p["items"]])
        raise ValueError(k)

    def root(self):
        name, tname = self.s["root"]
        return self.struct(tname, 0)


# ---------------------------------------------------------------------------- reference serialisation

def elem_qn(src, p):
    form = p.get("form") or ("qualified" if src["qualified"] else "unqualified")
    return "{%s}%s" % (TNS, p["name"]) if form == "qualified" else p["name"]


def attr_qn(src, a):
    form = a.get("form") or ("qualified" if src["attr_qualified"] else "unqualified")
    return "{%s}%s" % (TNS, a["name"]) if form == "qualified" else a["name"]


def ref_fill(src, e, st, declared=None):
    if declared is not None and st["type"] != declared:
        e.set("{%s}type" % XSI, etree.QName(TNS, st["type"]))     # value: resolved by the canonical comparison
    for a, v in st["attrs"]:
        e.set(attr_qn(src, a), v["lex"])
        e.set("{%s}at.%s" % (MARK, a["name"]), v["base"])
    if st["text"] is not None:
        e.text = st["text"]["lex"]
        e.set("{%s}lt" % MARK, st["text"]["base"])
    if st["content"] is not None:
        for c in ref_particle(src, st["content"]):
            e.append(c)


def ref_particle(src, v):
    k = v["k"]
    out = []
    if k == "elem":
        for it in v["items"]:
            e = etree.Element(elem_qn(src, v["p"]))
            if "nil" in it:
                e.set("{%s}nil" % XSI, "true")
            elif "leaf" in it:
                e.text = it["leaf"]["lex"]
                e.set("{%s}lt" % MARK, it["leaf"]["base"])
            else:
                ref_fill(src, e, it["struct"], it["declared"])
            out.append(e)
    elif k == "any":
        out += [copy.deepcopy(n) for n in v["nodes"]]
    elif k == "group":
        for r in v["rounds"]:
            out += ref_particle(src, r)
    elif k == "seq":
        for r in v["rounds"]:
            for c in r:
                out += ref_particle(src, c)
    elif k == "choice":
        for i, c in v["rounds"]:
            out += ref_particle(src, c)
    elif k == "all":
        for c in v["members"]:
            out += ref_particle(src, c)
    return out


def ref_doc(src, st):
    """reference document carrying type markers ({urn:verif}lt, {urn:verif}at.<name>) for the typed comparison"""
    root = etree.Element("{%s}%s" % (TNS, src["root"][0]), nsmap={"ns0": TNS})
    ref_fill(src, root, st)
    return root


def strip_markers(doc):
    d = copy.deepcopy(doc)
    for e in d.iter():
        for k in list(e.attrib):
            if k.startswith("{%s}" % MARK):
                del e.attrib[k]
    etree.cleanup_namespaces(d)
    return d


# ---------------------------------------------------------------------------- caller's view

class Caller:
    """kwargs in zeep's conventions; `style` decides dict vs value object per struct and how absence is spelt"""

    def __init__(self, src, zs, rng, style="mixed", explicit=False):
        self.s = src
        self.zs = zs
        self.rng = rng
        self.style = style
        self.explicit = explicit          # absent things are simply omitted, nil is always the Nil marker

    def multiple(self, p):
        return p.get("max", 1) != 1

    def struct_fields(self, st):
        d = {}
        t = self.s["types"][st["type"]]
        for a, v in st["attrs"]:
            d[a["zn"][st["type"]]] = v["py"]
        if st["text"] is not None:
            d[t.get("valname", "_value_1")] = st["text"]["py"]
        if st["content"] is not None:
            d.update(self.fields(st["content"]))
        return d

    def struct_value(self, st, declared):
        d = self.struct_fields(st)
        as_object = st["type"] != declared or (self.style == "object") or (self.style == "mixed" and self.rng.random() < 0.4)
        if as_object:
            return self.zs.get_type("{%s}%s" % (TNS, st["type"]))(**d)
        return d

    def item_value(self, it, p, in_choice=False):
        from zeep import xsd
        if "nil" in it:
            # an explicit Nil marker; for a required single nillable element outside a choice None means the same
            if p.get("min", 1) >= 1 and p.get("max", 1) == 1 and not in_choice and not self.explicit and self.rng.random() < 0.5:
                return None
            return xsd.Nil
        if "leaf" in it:
            return it["leaf"]["py"]
        return self.struct_value(it["struct"], it["declared"])

    def fields(self, v, in_choice=False):
        k = v["k"]
        p = v["p"]
        n = p.get("zn")
        if k == "elem":
            vals = [self.item_value(it, p, in_choice) for it in v["items"]]
            if self.multiple(p):
                if not vals and (self.explicit or self.rng.random() < 0.5):
                    return {}
                return {n: vals}
            if not vals:
                return {} if (self.explicit or self.rng.random() < 0.5) else {n: None}
            return {n: vals[0]}
        if k == "any":
            nodes = [copy.deepcopy(x) for x in v["nodes"]]
            if self.multiple(p):
                return {n: nodes} if nodes or (not self.explicit and self.rng.random() < 0.5) else {}
            return {n: nodes[0]} if nodes else {}
        if k == "group":
            if self.multiple(p):
                return {n: [self.fields(r) for r in v["rounds"]]}
            return self.fields(v["rounds"][0]) if v["rounds"] else {}
        if k == "seq":
            rounds = []
            for r in v["rounds"]:
                d = {}
                for c in r:
                    d.update(self.fields(c))
                rounds.append(d)
            if self.multiple(p):
                return {n: rounds}
            return rounds[0] if rounds else {}
        if k == "choice":
            rounds = [self.fields(c, True) for i, c in v["rounds"]]
            if self.multiple(p):
                return {n: rounds}
            return rounds[0] if rounds else {}
        if k == "all":
            d = {}
            for c in v["members"]:
                d.update(self.fields(c))
            return d
        raise ValueError(k)


# ---------------------------------------------------------------------------- what was supplied (for read-back comparison)

class LeafList(list):
    """the value of an xsd:list typed leaf (a python list that is ONE datum, not a repetition)"""


def _leafval(leaf):
    return LeafList(leaf["py"]) if leaf.get("list") else leaf["py"]


class AttrVal:
    """an attribute value in the description of what was supplied (K7 concerns element leaves only)"""

    def __init__(self, v):
        self.v = v


def supplied_struct(src, st):
    d = {}
    t = src["types"][st["type"]]
    for a, v in st["attrs"]:
        d[a["zn"][st["type"]]] = AttrVal(_leafval(v))
    if st["text"] is not None:
        d[t.get("valname", "_value_1")] = _leafval(st["text"])
    if st["content"] is not None:
        d.update(supplied_fields(src, st["content"]))
    return d


def supplied_fields(src, v):
    k = v["k"]
    p = v["p"]
    n = p.get("zn")
    mult = p.get("max", 1) != 1
    if k == "elem":
        vals = []
        for it in v["items"]:
            if "nil" in it:
                vals.append(None)
            elif "leaf" in it:
                vals.append(_leafval(it["leaf"]))
            else:
                vals.append(supplied_struct(src, it["struct"]))
        if mult:
            return {n: vals}
        return {n: vals[0]} if vals else {}
    if k == "any":
        nodes = v["nodes"]
        if mult:
            return {n: nodes}
        return {n: nodes[0]} if nodes else {}
    if k == "group":
        if mult:
            return {n: [supplied_fields(src, r) for r in v["rounds"]]}
        return supplied_fields(src, v["rounds"][0]) if v["rounds"] else {}
    if k == "seq":
        rounds = []
        for r in v["rounds"]:
            d = {}
            for c in r:
                d.update(supplied_fields(src, c))
            rounds.append(d)
        if mult:
            return {n: rounds}
        return rounds[0] if rounds else {}
    if k == "choice":
        rounds = [supplied_fields(src, c) for i, c in v["rounds"]]
        if mult:
            return {n: rounds}
        return rounds[0] if rounds else {}
    if k == "all":
        d = {}
        for c in v["members"]:
            d.update(supplied_fields(src, c))
        return d
    raise ValueError(k)


def is_empty(v):
    from zeep.xsd.valueobjects import CompoundValue
    if isinstance(v, CompoundValue):
        v = v.__values__
    if isinstance(v, AttrVal):
        return False
    if v is None or v == [] or v == {}:
        return True
    if isinstance(v, dict):
        return all(is_empty(x) for x in v.values())
    return False


def readback_diff(sup, got, path="root"):
    """None when `got` (zeep value) carries exactly what `sup` describes; else dict(msg, code) for the first difference.
    code: 'empty-lexical' (supplied '' / b'' / [] read back None), 'empty-structure' (a structure whose fields are all
    empty read back None / missing), 'other'"""
    from zeep.xsd.valueobjects import CompoundValue
    from harness import xmlcanon

    def out(msg, code="other"):
        return dict(msg="%s: %s" % (path, msg), code=code)
    if isinstance(got, CompoundValue):
        got = got.__values__
    if isinstance(sup, AttrVal):
        d = readback_diff(sup.v, got, path)
        if d:
            d = dict(msg="attribute " + d["msg"], code="attribute")
        return d
    if isinstance(sup, dict):
        if not isinstance(got, dict):
            if got is None and is_empty(sup):
                return out("supplied a structure without any content, read back None", "empty-structure")
            return out("supplied a structure, read back %r" % (canon(got),))
        for k, v in sup.items():
            if k not in got:
                if isinstance(v, AttrVal):
                    return out("attribute %s: missing after the round trip" % k, "attribute")
                if isinstance(v, dict) and is_empty(v):
                    return out("%s: supplied a structure without any content, missing after the round trip" % k, "empty-structure")
                if v is None or (v == [] and not isinstance(v, LeafList)):
                    continue
                if v in ("", b"") or (v == [] and isinstance(v, LeafList)):
                    return out("%s: supplied %r, missing after the round trip" % (k, v), "empty-lexical")
                return out("%s: missing after the round trip" % k)
            d = readback_diff(v, got[k], path + "." + k)
            if d:
                return d
        for k, v in got.items():
            if k not in sup and not is_empty(v):
                return out("%s: read back %r but nothing was supplied" % (k, canon(v)))
        return None
    if isinstance(sup, list):
        if not isinstance(got, list):
            if not sup and got is None and isinstance(sup, LeafList):
                return out("supplied the empty list of an xsd:list type, read back None", "empty-lexical")
            if not sup and got is None:
                return out("an empty repetition read back None, not []")
            return out("supplied a list of %d, read back %r" % (len(sup), canon(got)))
        if len(sup) != len(got):
            return out("supplied %d items, read back %d" % (len(sup), len(got)))
        for i, (a, b) in enumerate(zip(sup, got)):
            d = readback_diff(a, b, "%s[%d]" % (path, i))
            if d:
                return d
        return None
    if isinstance(sup, etree._Element):
        if not isinstance(got, etree._Element) or xmlcanon.node(sup, strip_ws=False) != xmlcanon.node(got, strip_ws=False):
            return out("xsd:any content differs")
        return None
    if sup is None:
        return None if got is None else out("supplied nil / nothing, read back %r" % (canon(got),))
    if got is None and sup in ("", b""):
        return out("supplied %r, read back None" % (sup,), "empty-lexical")
    if type(sup) is not type(got):
        return out("supplied %r (%s), read back %r (%s)" % (sup, type(sup).__name__, canon(got), type(got).__name__))
    if sup != got:
        return out("supplied %r, read back %r" % (sup, got))
    return None


def canon(v):
    from zeep.xsd.valueobjects import CompoundValue
    if isinstance(v, CompoundValue):
        v = v.__values__
    if isinstance(v, dict):
        return {k: canon(x) for k, x in v.items()}
    if isinstance(v, list):
        return [canon(x) for x in v]
    if isinstance(v, etree._Element):
        return etree.tostring(v).decode()
    if isinstance(v, (bytes, D, datetime.date, datetime.datetime, float)):
        return repr(v)
    return v


# ---------------------------------------------------------------------------- typed canonical comparison of documents

def docs_equal(ty, ref, got):
    """canonical, all-aware, lexically-typed comparison of the marked reference document with an emitted one;
    returns None or a description of the first difference"""
    from harness import enginea
    ca, cb = enginea.canon_doc(ref, ty), enginea.canon_doc(got, ty)
    return _first_diff(ca, cb, "/" + ca["t"][1])


def _first_diff(a, b, path):
    if a["t"] != b["t"]:
        return "%s: element name %s, emitted %s" % (path, a["t"], b["t"])
    marks = {x[0][1]: x[1] for x in a["a"] if x[0][0] == MARK}
    ra = [x for x in a["a"] if x[0][0] != MARK]
    if [x[0] for x in ra] != [x[0] for x in b["a"]]:
        return "%s: attributes %s, emitted %s" % (path, [x[0] for x in ra], [x[0] for x in b["a"]])
    for x, y in zip(ra, b["a"]):
        if x[1] != y[1] and not lex_equal(marks.get("at." + x[0][1], "string"), x[1], y[1]):
            return "%s/@%s: %r, emitted %r" % (path, x[0][1], x[1], y[1])
    if (a["x"] or "") != (b["x"] or "") and not lex_equal(marks.get("lt", "string"), a["x"], b["x"]):
        return "%s: text %r, emitted %r" % (path, a["x"], b["x"])
    if len(a["k"]) != len(b["k"]):
        return "%s: children %s, emitted %s" % (path, [k["t"][1] for k in a["k"]], [k["t"][1] for k in b["k"]])
    for x, y in zip(a["k"], b["k"]):
        d = _first_diff(x, y, path + "/" + x["t"][1])
        if d:
            return d
    return None
