#!/bin/sh
# Offline setup: regenerate the translator outputs from /repo and build every Lean target.
set -e
cd "$(dirname "$0")"
/venv/bin/python - <<'PY'
import sys
sys.path.insert(0, ".")
sys.dont_write_bytecode = True
from harness.core import regenerate
print(regenerate())
PY
cd lean
lake build ZeepModel Generated ZeepProofs zdriver
