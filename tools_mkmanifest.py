#!/venv/bin/python
"""Rebuild MANIFEST.json from the property modules under harness/props."""
import importlib, json, sys, os
sys.path.insert(0, os.path.dirname(os.path.abspath(__file__)))
sys.dont_write_bytecode = True
ALL = ["C%02d" % i for i in range(1, 21)]
checks, na = [], []
for pid in ALL:
    try:
        m = importlib.import_module("harness.props." + pid.lower())
    except ModuleNotFoundError as e:
        if e.name != "harness.props." + pid.lower():
            raise        # a missing dependency (run this tool with /venv/bin/python), not a missing check
        na.append(dict(property_id=pid, reason="check not built yet in this round (planned in DESIGN.md section 6); nothing is claimed"))
        continue
    mf = m.MANIFEST
    checks.append(dict(
        property_id=pid,
        quick_cmd=f"./check {pid} --tier quick",
        thorough_cmd=f"./check {pid} --tier thorough",
        evidence_file=f"evidence/{pid}.json",
        replay_cmd_template=f"./check {pid} --replay {{path}}",
        engine=mf["engine"],
        level_claimed=dict(category=getattr(m, "LEVEL", "proof"), text=mf["text"], design_ref=mf.get("design_ref", "DESIGN.md section 6")),
        level_note=mf["note"],
        technique=mf["technique"],
    ))
man = dict(
    version=1,
    setup_cmd="./setup.sh",
    hooks=dict(guard="ZEEP_VERIF", enable="no hooks are needed: checks observe zeep through its public API, recording transports, sys.settrace/sys.setprofile and clock patching in the harness process",
               baseline_off_cmd="cd /repo && /venv/bin/python -m pytest -ra -q -p no:cacheprovider --timeout=900 --continue-on-collection-errors",
               source_commits=[], add_only=True),
    engines=[
        dict(name="lean-model", path="lean/ZeepModel", serves_properties=[c["property_id"] for c in checks],
             kind_free_text="hand-written executable Lean 4 model of zeep mechanisms; theorems in lean/ZeepProofs/Cxx.lean"),
        dict(name="tie", path="harness", serves_properties=[c["property_id"] for c in checks],
             kind_free_text="translators (lean/Generated regenerated from /repo each run) + differential correspondence via JSON line driver (lean/Driver) + direct oracles on the implementation"),
    ],
    checks=checks,
    not_applicable=na,
    notes="Technique family: machine-checked proof in Lean 4 of theorems about a model, tied to /repo by translators and a correspondence check on every run. See DESIGN.md.",
)
json.dump(man, open(os.path.join(os.path.dirname(os.path.abspath(__file__)), "MANIFEST.json"), "w"), indent=1)
print(len(checks), "checks;", len(na), "not applicable")
